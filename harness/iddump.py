"""Dump {package path: {step: [variant-id, build-id]}} of a project through the real API (fresh interpreter per call).

usage: iddump.py JSON   with {"proj":..., "defines":{}, "sandbox":bool, "listdir_seed":int|null, "scripts":bool}
Build-Ids are computed by the real StepIR.getDigestCoro(relaxTools=True) with harness supplied source hashes
(sha1("src"+variant-id) for checkout steps), empty fingerprint and platform.
"""
import asyncio, hashlib, json, os, sys

def main():
    a = json.loads(sys.argv[1])
    repo = os.environ.get("VERIF_REPO", "/repo")
    sys.path.insert(0, os.path.join(repo, "pym"))
    sys.path.insert(0, os.path.dirname(os.path.dirname(os.path.abspath(__file__))))
    if a.get("listdir_seed") is not None:
        import random
        rnd = random.Random(a["listdir_seed"])
        real_listdir, real_scandir = os.listdir, os.scandir
        def listdir(*x, **k):
            r = real_listdir(*x, **k); rnd.shuffle(r); return r
        class SD:
            def __init__(self, it): self.e = list(it); rnd.shuffle(self.e); it.close()
            def __iter__(self): return self
            def __next__(self):
                if not self.e: raise StopIteration
                return self.e.pop()
            def __enter__(self): return self
            def __exit__(self, *x): return False
            def close(self): pass
        def scandir(*x, **k):
            return SD(real_scandir(*x, **k))
        os.listdir = listdir; os.scandir = scandir
    from lib import bobapi
    from bob.errors import BobError
    from bob.cmds.build.build import ExecutableStep, LazyIR
    out = {"ids": {}}
    try:
        with bobapi.project(a["proj"], defines=a.get("defines"), sandbox=a.get("sandbox", False)) as (rs, ps):
            cache = {}
            async def bid(step):
                key = step.getVariantId() + step.getLabel().encode()
                if key in cache:
                    return cache[key]
                if step.isCheckoutStep():
                    r = hashlib.sha1(b"src" + step.getVariantId()).digest()
                else:
                    async def calc(steps):
                        return [await bid(s) for s in steps]
                    r = await step.getDigestCoro(calc, fingerprint=b"", platform=b"", relaxTools=True)
                cache[key] = r
                return r
            def walk(p):
                k = "/".join(p.getStack())
                if k in out["ids"]:
                    return
                e = {}
                for s in (p.getCheckoutStep(), p.getBuildStep(), p.getPackageStep()):
                    if s.isValid():
                        es = ExecutableStep.fromStep(s, LazyIR)
                        e[s.getLabel()] = [s.getVariantId().hex(), asyncio.run(bid(es)).hex()]
                out["ids"][k] = e
                for name, (c, d) in sorted(bobapi.children(p).items()):
                    walk(c)
            for name, (c, d) in sorted(bobapi.children(ps.getRootPackage()).items()):
                walk(c)
    except BobError as e:
        out = {"error": str(e)[:300]}
    print(json.dumps(out))

if __name__ == "__main__":
    main()
