"""Launcher: the real bob of $VERIF_REPO plus OS-boundary monitors selected by VERIF_* variables.

VERIF_KILL_AT=<n>        SIGKILL self at the n-th matching fs event (main process only)
VERIF_KILL_MATCH=<re>    regex over "event arg0 arg1" selecting matching events (default: state commits)
VERIF_FSTRACE=<file>     append one line per matching event (count run)
VERIF_FSTRACE_MATCH=<re> regex for traced events (default: same as VERIF_KILL_MATCH)
VERIF_LISTDIR_SEED=<n>   permute os.listdir / os.scandir results
VERIF_SANDBOX_HELPER=<p> use this (sanitizer instrumented) namespace-sandbox binary
The body must stay under __main__: Bob's forkserver re-imports the main module in pool workers.
"""
import os, sys

def install(mypid):
    import re, signal
    kill_at = int(os.environ.get("VERIF_KILL_AT", "0"))
    match = re.compile(os.environ.get("VERIF_KILL_MATCH", r"^os\.rename \S+ \S*\.bob-state\.pickle\.new$"))
    trace = os.environ.get("VERIF_FSTRACE")
    tmatch = re.compile(os.environ.get("VERIF_FSTRACE_MATCH", match.pattern))
    cnt = [0]
    tf = open(trace, "a") if trace else None
    EVENTS = {"os.rename", "os.remove", "os.rmdir", "os.mkdir", "os.link", "os.symlink", "open", "os.chmod",
              "os.truncate", "shutil.rmtree", "shutil.move", "shutil.copytree", "os.utime"}
    def hook(ev, args):
        if ev not in EVENTS or os.getpid() != mypid:
            return
        try:
            if ev == "open":
                m = args[1]
                if not isinstance(m, str) or not any(c in m for c in "wxa+"):
                    return
                s = "open %s %s" % (os.fsdecode(args[0]) if not isinstance(args[0], int) else args[0], m)
            else:
                s = ev + " " + " ".join(os.fsdecode(a) if isinstance(a, (str, bytes)) else str(a) for a in args[:2])
        except Exception:
            return
        if tf is not None and tmatch.search(s):
            # who asked for this state save?  (state.py public method <- builder function:line) - lets the harness pick one
            # kill point per distinct call site instead of sampling blindly
            sig = ""
            try:
                f = sys._getframe(1)
                meth = site = None
                first = None
                while f is not None:
                    fn = f.f_code.co_filename
                    if "/bob/" in fn and first is None and not fn.endswith("bob/state.py"):
                        first = "%s:%s:%d" % (os.path.basename(fn), f.f_code.co_name, f.f_lineno)
                    if fn.endswith("bob/state.py") and not f.f_code.co_name.startswith("_"):
                        meth = f.f_code.co_name
                    elif meth is not None and not fn.endswith("bob/state.py"):
                        site = "%s:%s:%d" % (os.path.basename(fn), f.f_code.co_name, f.f_lineno)
                        break
                    f = f.f_back
                sig = " | %s<%s" % (meth, site) if meth else " | %s" % first
            except Exception:
                pass
            tf.write(s + sig + "\n"); tf.flush()
        if kill_at and match.search(s):
            cnt[0] += 1
            if cnt[0] == kill_at:
                if tf is not None:
                    tf.write("KILLED\n"); tf.flush()
                os.kill(mypid, signal.SIGKILL)
    if kill_at or trace:
        sys.addaudithook(hook)
    ls = os.environ.get("VERIF_LISTDIR_SEED")
    if ls:
        import random
        rnd = random.Random(int(ls))
        orig_listdir = os.listdir
        def listdir(*a, **k):
            r = orig_listdir(*a, **k); rnd.shuffle(r); return r
        os.listdir = listdir

def main():
    repo = os.environ.get("VERIF_REPO", "/repo")
    sys.path.insert(0, os.path.join(repo, "pym"))
    install(os.getpid())
    ctl = os.environ.get("VERIF_CTL")
    if ctl:
        with open(os.path.join(ctl, "bobpid"), "w") as f:
            f.write(str(os.getpid()))
    helper = os.environ.get("VERIF_SANDBOX_HELPER")
    if helper:
        # sanitizer build of src/namespace-sandbox (C13): Bob asks this function for the helper to execute
        import bob.invoker
        bob.invoker.getSandboxHelperPath = lambda: helper
    from bob.scripts import bob
    return bob(os.path.join(repo, "bob"))

if __name__ == "__main__":
    sys.exit(main())
