"""Generator of string-substitution expressions *together with their documented value*.

Written from doc/manual/configuration.rst ("String substitution", "Boolean properties") and
doc/manpages/bobpaths.rst ("String literals", "String function calls", operator table) - not from
pym/bob/stringparser.py.  Text and value are built simultaneously; value None means "the documented
outcome is an error" (unset variable without default, unknown function, wrong argument count).
"""
import re

SPECIAL = '\\"\'$'
ALPH = 'abZ9_ -+:,)}({.*?[]^|/=<>!&#~%@;\t\n\u00e4\u20ac\U0001f600' + SPECIAL
VARS = {"A": "alpha", "E": "", "Q": "q'u\"o$t\\e", "T": "true", "F": "0", "SP": "  x  ", "PTR": "A",
        "FALSE": "FaLsE", "N": "-n", "C": "a,b)c}d", "Z": "0 "}
UNSET = ["U1", "U2"]
TOOLS = {"t1": {"TV": "tool value", "TE": ""}, "t-2": {}}


def is_false(v):
    return v.strip().lower() in ("", "0", "false")


def tf(b):
    return "true" if b else "false"


class Gen:
    def __init__(self, rnd, sandbox=False, escape_plain=True):
        self.rnd = rnd
        self.sandbox = sandbox
        self.escape_plain = escape_plain
        self.features = set()
        self.no_newline = False

    # --- literal text -----------------------------------------------------------------
    def protect(self, c, delims):
        """Render one literal character so that it keeps its meaning in a context with `delims`."""
        r = self.rnd.random()
        if '"' in delims:
            # directly inside double quotes only the backslash is used: the documentation does not say whether
            # quotes nest inside double quotes
            r = 0.99 if (c in SPECIAL or c in delims) else r
        if c in SPECIAL or c in delims:
            if c != "'" and r < 0.3:
                self.features.add("sq-protect")
                return "'" + c + "'"
            if c not in '\\"$\'' and r < 0.45:
                self.features.add("dq-protect")
                return '"' + c + '"'
            self.features.add("bs-protect:" + ("special" if c in SPECIAL else "delim"))
            return "\\" + c
        if self.escape_plain and r < 0.08:
            self.features.add("bs-plain")
            return "\\" + c
        return c

    def lit(self, delims, n=None):
        n = self.rnd.randrange(0, 5) if n is None else n
        t, v = [], []
        for _ in range(n):
            c = self.rnd.choice(ALPH)
            if c == "\n" and self.no_newline:
                c = "n"
            v.append(c); t.append(self.protect(c, delims))
        return "".join(t), "".join(v)

    def render_value(self, s, delims):
        return "".join(self.protect(c, delims) for c in s)

    def poison(self):
        self.features.add("poison-in-untaken")
        p = self.rnd.choice(["${U1}", "$U2", "$(nosuchfun,x)", "$(eq,a)", "${U1:-${U2}}", "$(not)", "$(get-tool-env,nope,X)"])
        k = self.rnd.random()
        if k < 0.25:
            self.features.add("poison-in-dq")
            return '"' + p + '"'
        if k < 0.40:
            self.features.add("poison-in-funarg")
            return "$(strip," + self.rnd.choice(['"%s"', "%s", "'x'%s"]) % p + ")"
        if k < 0.50:
            self.features.add("poison-in-nested-word")
            return "${A:+" + p + "}"
        return p

    # --- strings ----------------------------------------------------------------------
    def string(self, depth, delims, allow_error=False):
        parts = []
        for _ in range(self.rnd.randrange(1, 4)):
            parts.append(self.part(depth, delims, allow_error))
        text = "".join(p[0] for p in parts)
        vals = [p[1] for p in parts]
        return text, (None if any(v is None for v in vals) else "".join(vals))

    def part(self, depth, delims, allow_error):
        rnd = self.rnd
        k = rnd.random()
        if depth <= 0 or k < 0.30:
            return self.lit(delims)
        if '"' in delims and k < 0.50:
            return self.lit(delims)
        if k < 0.40:
            s = "".join(rnd.choice(ALPH.replace("'", "")) for _ in range(rnd.randrange(0, 6)))
            if self.no_newline:
                s = s.replace("\n", "n")
            self.features.add("single-quoted")
            return "'" + s + "'", s
        if k < 0.50:
            t, v = self.string(depth - 1, '"', allow_error)
            self.features.add("double-quoted")
            return '"' + t + '"', v
        if k < 0.57:
            name = rnd.choice(list(VARS))
            self.features.add("bare-var")
            follow = rnd.choice(["\\.", "''", "-", "\\x", "${E}", '""'] if '"' not in delims else ["\\.", "-", "${E}"])
            fv = {"\\.": ".", "''": "", "-": "-", "\\x": "x", "${E}": "", '""': ""}[follow]
            if follow == "-" and "-" in delims:
                follow, fv = "\\-", "-"
            return "$" + name + follow, VARS[name] + fv
        if k < 0.82:
            return self.variable(depth, allow_error)
        return self.funcall(depth, allow_error)

    def variable(self, depth, allow_error):
        rnd = self.rnd
        name = rnd.choice(list(VARS) + UNSET)
        isset = name in VARS
        op = rnd.choice(["", "-", ":-", "+", ":+"])
        nametext = name
        if isset and name == "A" and rnd.random() < 0.3:
            nametext = rnd.choice(["${PTR}", "$PTR", '"A"', "'A'", "\\A"])
            self.features.add("indirect-name")
        if op == "":
            if not isset:
                if allow_error and rnd.random() < 0.5:
                    self.features.add("unset-error")
                    return "${" + name + "}", None
                name = nametext = "A"
            return "${" + nametext + "}", VARS[name]
        null = (not isset) or (op.startswith(":") and VARS[name] == "")
        take_word = null if op.endswith("-") else (not null)
        self.features.add("var" + op + ("/taken" if take_word else "/untaken"))
        if take_word:
            wt, wv = self.string(depth - 1, "}", allow_error)
        else:
            if rnd.random() < 0.6:
                wt, wv = self.poison(), ""
            else:
                wt, wv = self.string(depth - 1, "}", False)
        if op.endswith("-"):
            val = wv if null else VARS[name]
        else:
            val = "" if null else wv
        return "${" + nametext + op + wt + "}", val

    def funcall(self, depth, allow_error):
        rnd = self.rnd
        f = rnd.choice(["eq", "ne", "not", "or", "and", "if-then-else", "strip", "subst", "match", "resubst",
                        "is-sandbox-enabled", "is-tool-defined", "get-tool-env"])
        self.features.add("fun:" + f)
        fixed = {"eq": 2, "ne": 2, "not": 1, "strip": 1, "if-then-else": 3, "subst": 3, "match": 2, "resubst": 3,
                 "is-sandbox-enabled": 0, "is-tool-defined": 1, "get-tool-env": 2}
        nargs = fixed.get(f)
        if nargs is None:
            nargs = rnd.randrange(0, 4)
        if allow_error and rnd.random() < 0.06 and f in ("eq", "ne", "not", "strip", "if-then-else", "subst"):
            self.features.add("argcount-error")
            args = [self.string(depth - 1, ",)", False) for _ in range(nargs + 1)]
            return "$(" + ",".join([f] + [a[0] for a in args]) + ")", None
        args = [self.string(depth - 1, ",)", False) for _ in range(nargs)]
        av = [a[1] for a in args]
        if f == "eq": val = tf(av[0] == av[1])
        elif f == "ne": val = tf(av[0] != av[1])
        elif f == "not": val = tf(is_false(av[0]))
        elif f == "or": val = tf(any(not is_false(a) for a in av))
        elif f == "and": val = tf(not any(is_false(a) for a in av))
        elif f == "if-then-else": val = av[2] if is_false(av[0]) else av[1]
        elif f == "strip": val = av[0].strip()
        elif f == "subst":
            if av[0] == "":
                args[0] = ("x", "x"); av[0] = "x"
            val = av[2].replace(av[0], av[1])
        elif f == "match":
            pat = self.regex(av[0], av[1])
            args[1] = (self.render_value(pat, ",)"), pat)
            flags = 0
            if rnd.random() < 0.3:
                args.append(("i", "i")); flags = re.IGNORECASE
            val = tf(re.search(pat, av[0], flags) is not None)
        elif f == "resubst":
            pat = self.regex(av[2], av[0])
            repl = av[1].replace("\\", "\\\\")
            args[0] = (self.render_value(pat, ",)"), pat)
            args[1] = (self.render_value(repl, ",)"), repl)
            flags = 0
            if rnd.random() < 0.3:
                args.append(("i", "i")); flags = re.IGNORECASE
            val = re.sub(pat, repl, av[2], flags=flags)
        elif f == "is-sandbox-enabled":
            val = tf(self.sandbox)
        elif f == "is-tool-defined":
            name = rnd.choice(["t1", "t-2", "nope", av[0]])
            args[0] = (self.render_value(name, ",)"), name)
            val = tf(name in TOOLS)
        elif f == "get-tool-env":
            tool = rnd.choice(["t1", "t1", "t-2"]); var = rnd.choice(["TV", "TE", "MISSING"])
            args = [(tool, tool), (var, var)]
            has_default = rnd.random() < 0.5
            if has_default:
                args.append(self.string(depth - 1, ",)", False))
            if var in TOOLS[tool]:
                val = TOOLS[tool][var]
            elif has_default:
                val = args[2][1]
            elif allow_error:
                self.features.add("get-tool-env-error")
                val = None
            else:
                args.append(("d", "d")); val = "d"
        return "$(" + ",".join([f] + [a[0] for a in args]) + ")", val

    def regex(self, subject, seedtext):
        rnd = self.rnd
        k = rnd.random()
        base = seedtext if rnd.random() < 0.5 else subject[rnd.randrange(0, len(subject) + 1):][:3]
        if not base:
            base = "a"
        if k < 0.4:
            return "x" + re.escape(base)
        if k < 0.6:
            return re.escape(base)
        if k < 0.7:
            return "^" + re.escape(base[:1]) + ".*"
        if k < 0.8:
            return "[a-z]+"
        if k < 0.9:
            return "(" + re.escape(base[:1]) + "|b)$"
        return re.escape(base[:1]) + "{0,2}"

    # --- boolean trees ----------------------------------------------------------------
    RANK = {"prim": 0, "!": 0, "cmp": 1, "&&": 2, "||": 3}

    def boolean(self, depth):
        """returns (infix text, function-call text or None, truth value, top operator)"""
        rnd = self.rnd
        k = rnd.random()
        if depth <= 0 or k < 0.25:
            it, ft, v = self.str_operand()
            return it, ft, not is_false(v), "prim"
        if k < 0.40:
            it, ft, v, top = self.boolean(depth - 1)
            self.features.add("bool:not")
            sp = rnd.choice(["", " "])
            return "!" + sp + self.paren(it, top, "!"), (None if ft is None else "$(not,%s)" % ft), not v, "!"
        if k < 0.70:
            op = rnd.choice(["&&", "||"])
            n = rnd.choice([2, 2, 3])
            subs = [self.boolean(depth - 1) for _ in range(n)]
            self.features.add("bool:" + op)
            it = (" " + op + " ").join(self.paren(s[0], s[3], op) for s in subs)
            ft = None if any(s[1] is None for s in subs) else "$(%s,%s)" % ("and" if op == "&&" else "or", ",".join(s[1] for s in subs))
            v = all(s[2] for s in subs) if op == "&&" else any(s[2] for s in subs)
            return it, ft, v, op
        op = rnd.choice(["==", "!=", "<", "<=", ">", ">="])
        (li, lf, lv), (ri, rf, rv) = self.str_operand(), self.str_operand()
        if rnd.random() < 0.4:
            # same value, different rendering: makes (in)equality sensitive to every character of the value
            self.features.add("expr:same-value-other-rendering")
            rv = lv
            if "'" not in lv and "\n" not in lv and rnd.random() < 0.6:
                ri, rf = "'" + lv + "'", self.render_value(lv, ",)")
            else:
                self.no_newline = True
                t = "".join(("\\" + c) if (c in SPECIAL or rnd.random() < 0.2) else c for c in lv.replace("\n", "n"))
                self.no_newline = False
                rv = lv.replace("\n", "n")
                ri, rf = '"' + t.replace("\\", "\\\\").replace('"', '\\"') + '"', '"' + t + '"'
        self.features.add("bool:" + op)
        v = {"==": lv == rv, "!=": lv != rv, "<": lv < rv, "<=": lv <= rv, ">": lv > rv, ">=": lv >= rv}[op]
        ft = None
        if op == "==": ft = "$(eq,%s,%s)" % (lf, rf)
        if op == "!=": ft = "$(ne,%s,%s)" % (lf, rf)
        sp = rnd.choice([" ", " ", ""])
        return "%s%s%s%s%s" % (li, sp, op, sp, ri), ft, v, "cmp"

    def paren(self, text, top, parent_op):
        """Parenthesise a sub-expression where the documented precedence table requires it (or randomly)."""
        need = self.RANK[top] > self.RANK[parent_op]
        if need or self.rnd.random() < 0.2:
            self.features.add("paren:" + ("needed" if need else "extra"))
            return "(" + text + ")"
        return text

    def str_operand(self):
        """A string operand of an expression: (infix text, substitution text, value)"""
        rnd = self.rnd
        k = rnd.random()
        if k < 0.25:
            s = "".join(rnd.choice(ALPH.replace("'", "").replace("\n", "")) for _ in range(rnd.randrange(0, 4)))
            self.features.add("expr:single-quoted")
            return "'" + s + "'", self.render_value(s, ",)"), s
        if k < 0.80:
            # double quoted literal: substitution text with \ and " escaped once more for the expression parser
            self.no_newline = True
            t, v = self.string(1, '"', False)
            self.no_newline = False
            self.features.add("expr:double-quoted")
            esc = t.replace("\\", "\\\\").replace('"', '\\"')
            return '"' + esc + '"', '"' + t + '"', v
        f = rnd.choice(["strip", "if-then-else", "subst", "not", "eq"])
        n = {"strip": 1, "if-then-else": 3, "subst": 3, "not": 1, "eq": 2}[f]
        ops = [self.str_operand() for _ in range(n)]
        av = [o[2] for o in ops]
        if f == "strip": v = av[0].strip()
        elif f == "if-then-else": v = av[2] if is_false(av[0]) else av[1]
        elif f == "subst":
            if av[0] == "":
                ops[0] = ("'x'", "x", "x"); av[0] = "x"
            v = av[2].replace(av[0], av[1])
        elif f == "not": v = tf(is_false(av[0]))
        else: v = tf(av[0] == av[1])
        self.features.add("expr:call:" + f)
        sp = rnd.choice(["", " "])
        return ("%s(%s)" % (f, ("," + sp).join(o[0] for o in ops)),
                "$(%s,%s)" % (f, ",".join(o[1] for o in ops)), v)
