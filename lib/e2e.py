"""Helpers for checks that run the real builder end to end."""
import os, re, shutil
from . import common, projgen, treecanon

EVLOG_ARGS = ["-e", "VERIF_EVLOG"]


def build(proj, model, mode="dev", targets=None, extra=(), env=None, timeout=600, monitors=None, evlog=None):
    """Run `bob dev|build <roots>`; returns RunResult"""
    targets = targets if targets is not None else roots(model)
    args = [mode] + list(targets) + projgen.define_args(model) + list(extra)
    e = dict(env or {})
    if evlog:
        args += EVLOG_ARGS
        e["VERIF_EVLOG"] = evlog
    return common.bob(args, cwd=proj, env=e, timeout=timeout, monitors=monitors)


def roots(model):
    out = []
    for n, r in model["recipes"].items():
        if r.get("root"):
            if r.get("multi"):
                out += [n + "-" + s for s in r["multi"]]
            else:
                out.append(n)
    return out


def dists(proj, model, mode="dev", field="dist", query="//*", timeout=300):
    """package path -> absolute directory of the requested step (only existing directories are listed by bob)"""
    args = ["query-path", "-f", "{name}|{%s}" % field, "--develop" if mode == "dev" else "--release", "-q"] + projgen.define_args(model) + [query]
    r = common.bob(args, cwd=proj, timeout=timeout)
    out = {}
    for l in r.stdout.splitlines():
        if "|" in l:
            k, v = l.split("|", 1)
            out[k] = os.path.join(proj, v)
    return out, r


def read_evlog(path):
    """list of (recipe, kind, pwd) EXEC events"""
    out = []
    if not os.path.exists(path):
        return out
    for l in open(path, errors="replace").read().splitlines():
        p = l.split(" ", 3)
        if len(p) >= 3 and p[0] == "EXEC":
            out.append((p[1], p[2], p[3] if len(p) > 3 else ""))
    return out


def compare_dists(dw, dc, limit=3, ignore=None):
    """compare directory trees of equally named packages; returns list of differences"""
    diffs = []
    for name in sorted(set(dw) | set(dc)):
        a, b = dw.get(name), dc.get(name)
        if a is None or b is None:
            diffs.append({"package": name, "problem": "directory listed only in %s" % ("subject" if b is None else "reference")})
        elif treecanon.canon(a) != treecanon.canon(b):
            diffs.append({"package": name, "diff": treecanon.diff(a, b, 6)})
        if len(diffs) >= limit:
            break
    return diffs


def summary(r):
    """'N packages built, M downloaded' numbers from bob's output"""
    m = re.search(r"Build result is in|(\d+) package[s]? built, (\d+) downloaded", (r.stdout or "") + (r.stderr or ""))
    mm = re.findall(r"(\d+) checkouts? \((\d+) overrides? active\), (\d+) packages? built, (\d+) downloaded", (r.stdout or "") + (r.stderr or ""))
    if mm:
        c, o, b, d = map(int, mm[-1])
        return {"checkouts": c, "built": b, "downloaded": d}
    return None
