"""Check driver: plans cases, runs them in worker subprocesses, aggregates verdict + evidence.

A check module (checks/cNN.py) provides
    ID            property id
    LEVEL         evidence level
    RULE          text: how cases are generated and what counts as distinct / non-trivial
    ASSUMPTIONS   list of strings
    plan(tier, seed) -> list of case dicts (JSON-able; each carries its own seed)
    run_case(case)   -> common.result(...)        (runs inside a worker process)
optional
    BATCH         cases per worker process (default 1)
    CASE_TIMEOUT  seconds per case (default 300)
    MIN_NONTRIVIAL  below this many distinct non-trivial signatures the run is inconclusive
    REQUIRED_COUNTERS  counters that must be > 0, else inconclusive (monitor never reached)
    finish(results, agg) -> list of extra violations (cross-case oracles)
    JOBS          number of parallel workers (default 16)
"""
import concurrent.futures, importlib, json, os, subprocess, sys, time, traceback

from . import common
from .common import VERIF

EXIT_HELD, EXIT_VIOLATION, EXIT_INCONCLUSIVE = 0, 1, 2


def load_known():
    p = os.path.join(VERIF, "known_findings.json")
    if not os.path.exists(p):
        return []
    return json.load(open(p)).get("findings", [])


def worker_main(modname):
    """Entry point inside a worker process: cases on stdin (JSON list), results on stdout."""
    mod = importlib.import_module("checks." + modname)
    cases = json.load(sys.stdin)
    out = sys.stdout
    sys.stdout = sys.stderr          # stray prints of the code under test must not corrupt the channel
    for c in cases:
        t0 = time.monotonic()
        try:
            r = mod.run_case(c)
        except BaseException as e:   # a harness crash is inconclusive, never a verdict
            r = common.result("inconclusive", note="harness exception: %s\n%s" % (repr(e), traceback.format_exc()[-1500:]))
        r["case"] = c
        r["wall"] = round(time.monotonic() - t0, 3)
        out.write(json.dumps(r) + "\n"); out.flush()


def _run_batch(modname, batch, timeout, deadline=None):
    if deadline is not None and time.monotonic() > deadline:
        return [{"status": "skipped", "case": c, "wall": 0} for c in batch]      # time budget of the tier used up: not started, not judged
    env = dict(os.environ)
    env.setdefault("PYTHONHASHSEED", "0")
    env["PYTHONPATH"] = VERIF
    # avoid arena map/unmap thrash of deep-recursion workloads (pure performance, 2x)
    env.setdefault("PYTHONMALLOC", "malloc")
    env.setdefault("MALLOC_TRIM_THRESHOLD_", "2000000000")
    env.setdefault("MALLOC_MMAP_THRESHOLD_", "2000000000")
    env.setdefault("MALLOC_TOP_PAD_", "268435456")
    cmd = [common.PY, os.path.join(VERIF, "check"), "--worker", modname]
    r = common.run_proc(cmd, cwd=VERIF, env=env, timeout=timeout, input=json.dumps(batch))
    results = []
    for line in (r.stdout or "").splitlines():
        try:
            results.append(json.loads(line))
        except ValueError:
            pass
    done = len(results)
    for c in batch[done:]:
        results.append(dict(common.result("inconclusive",
                       note="worker died/timeout rc=%s timeout=%s err=%s" % (r.returncode, r.timed_out, (r.stderr or "")[-800:])), case=c, wall=0))
    return results


def run_check(modname, tier, seed, only_case=None):
    t0 = time.monotonic()
    mod = importlib.import_module("checks." + modname)
    pid = mod.ID
    if only_case is not None:
        cases = [only_case]
    else:
        cases = mod.plan(tier, seed)
    batch_n = getattr(mod, "BATCH", 1)
    case_to = getattr(mod, "CASE_TIMEOUT", 300)
    jobs = int(os.environ.get("VERIF_JOBS", getattr(mod, "JOBS", 16)))
    # dedicated cases (known mechanisms, directed scenarios) run first so that a time budget never cuts them off
    # ... and the different kinds of cases of a plan are spread evenly over the run order, so that a budget cuts every kind alike
    groups = {}
    for c in cases:
        groups.setdefault((str(c.get("kind")), tuple(sorted(k for k in c if k not in ("seed", "_first")))), []).append(c)
    order = []
    for g in groups.values():
        order += [(i / len(g), id(g), i, c) for i, c in enumerate(g)]
    order.sort(key=lambda t: (t[0], t[1], t[2]))
    cases = [t[3] for t in order]
    cases = [c for c in cases if c.get("_first")] + [c for c in cases if not c.get("_first")]
    batches = [cases[i:i + batch_n] for i in range(0, len(cases), batch_n)]
    # wall-clock budget of the tier: cases not started when it is used up are reported as not run (never as held)
    budget = float(os.environ.get("VERIF_BUDGET_S", getattr(mod, "BUDGET_S", {}).get(tier, 0) if isinstance(getattr(mod, "BUDGET_S", None), dict) else (1500 if tier == "thorough" else 0)))
    deadline = (t0 + budget) if budget > 0 and only_case is None else None
    results = []
    with concurrent.futures.ThreadPoolExecutor(max_workers=jobs) as ex:
        futs = [ex.submit(_run_batch, modname, b, case_to * len(b) + 30, deadline) for b in batches]
        for f in concurrent.futures.as_completed(futs):
            results.extend(f.result())
    planned = len(results)
    skipped = sum(1 for r in results if r["status"] == "skipped")
    results = [r for r in results if r["status"] != "skipped"]
    results.sort(key=lambda r: json.dumps(r["case"], sort_keys=True))

    agg = {"evaluations": len(results), "held": 0, "trivial": 0, "inconclusive": 0, "violation": 0}
    counters = {}
    sigs = set()
    samples = []
    viols = []
    notes = []
    for r in results:
        agg[r["status"]] = agg.get(r["status"], 0) + 1
        for k, v in r.get("counters", {}).items():
            counters[k] = counters.get(k, 0) + v
        if r["status"] in ("held", "violation"):
            sigs.update(r.get("sigs", []))
        if "sample" in r and len(samples) < 4:
            samples.append(r["sample"])
        for v in r.get("violations", []):
            viols.append((r["case"], v))
        if r["status"] == "inconclusive" and len(notes) < 5:
            notes.append(r.get("note", "")[:600])
    if hasattr(mod, "finish"):
        for v in mod.finish(results, agg) or []:
            viols.append(({"cross_case": True}, v))

    known = [k for k in load_known() if k["property"] == pid and k.get("status") == "known"]
    known_hit = {}
    unknown = []
    for case, v in viols:
        k = next((k for k in known if k["mechanism"] == v["mechanism"]), None)
        if k:
            known_hit.setdefault(k["mechanism"], []).append((case, v))
        else:
            unknown.append((case, v))

    for mech, lst in sorted(known_hit.items()):
        k = next(k for k in known if k["mechanism"] == mech)
        print("KNOWN-FINDING: property=%s %s: %s (%d occurrence(s) this run)" % (pid, mech, k["summary"], len(lst)))

    replay_dir = os.path.join(VERIF, "out", "replay")
    for i, (case, v) in enumerate(unknown[:20]):
        os.makedirs(replay_dir, exist_ok=True)
        path = os.path.join(replay_dir, "%s-%s-%d-%d.json" % (pid, tier, seed, i))
        json.dump({"property": pid, "module": modname, "case": case, "violation": v, "repo": common.REPO}, open(path, "w"), indent=1)
        print("VIOLATION property=%s replay=%s" % (pid, path))
        print("  mechanism: %s" % v["mechanism"])
        print("  detail: %s" % json.dumps(v["detail"])[:1500])

    min_nt = getattr(mod, "MIN_NONTRIVIAL", 2) if only_case is None else 0
    inconclusive_reasons = []
    if len(sigs) < min_nt:
        inconclusive_reasons.append("only %d distinct non-trivial cases (< %d)" % (len(sigs), min_nt))
    if only_case is None:
        for c in getattr(mod, "REQUIRED_COUNTERS", []):
            if counters.get(c, 0) <= 0:
                inconclusive_reasons.append("monitor counter %s is zero" % c)
        if agg["inconclusive"] > max(2, len(results) // 5):
            inconclusive_reasons.append("%d of %d cases inconclusive" % (agg["inconclusive"], len(results)))

    wall = time.monotonic() - t0
    cov = {
        "evaluations": len(results),
        "planned_cases": planned, "cases_not_started_when_time_budget_ended": skipped, "time_budget_s": budget,
        "distinct_nontrivial": len(sigs),
        "rule": mod.RULE,
        "samples": samples or [r["case"] for r in results[:2]],
        "case_status": {k: agg[k] for k in ("held", "trivial", "inconclusive", "violation")},
        "monitor_counters": counters,
        "known_findings_reproduced": {m: len(l) for m, l in known_hit.items()},
        "inconclusive_notes": notes,
    }
    ev = {
        "property_id": pid, "tier": tier, "seed": seed, "level": mod.LEVEL, "coverage": cov,
        "assumptions": list(getattr(mod, "ASSUMPTIONS", [])), "wall_s": round(wall, 1),
        "violations": len(unknown), "repo": common.REPO,
    }
    if only_case is None:
        # evidence proper is only written for the real tree; mutant runs (tools/mutcheck.py) go to out/
        evdir = os.path.join(VERIF, "evidence") if common.REPO == "/repo" else os.path.join(VERIF, "out", "evidence-mut")
        os.makedirs(evdir, exist_ok=True)
        with open(os.path.join(evdir, pid + ".json"), "w") as f:
            json.dump(ev, f, indent=1, sort_keys=True)
            f.write("\n")
    if skipped:
        print("%s time budget of %.0fs used up: %d of %d planned cases run" % (pid, budget, len(results), planned))
    print("%s tier=%s seed=%d cases=%d held=%d trivial=%d inconclusive=%d violating=%d distinct_nontrivial=%d wall=%.0fs"
          % (pid, tier, seed, len(results), agg["held"], agg["trivial"], agg["inconclusive"], agg["violation"], len(sigs), wall))
    print("  counters: " + json.dumps(counters, sort_keys=True))
    if unknown:
        return EXIT_VIOLATION
    if inconclusive_reasons:
        print("INCONCLUSIVE property=%s: %s" % (pid, "; ".join(inconclusive_reasons)))
        for n in notes:
            print("  note: " + n.replace("\n", "\n        "))
        return EXIT_INCONCLUSIVE
    return EXIT_HELD
