"""Edit operations on projgen models (the `histories` quantifier).

apply_edit(model, rnd, kinds) mutates the model in place and returns a short description tuple.
Reverting is done by the callers (they keep deep copies of earlier models).
"""
import copy
from . import projgen
from .projgen import KINDS, VARNAMES, VALS, new_tok

# edits that change exactly one input of some step while everything else stays the same (the dangerous ones for incremental builds)
SINGLE_FACTOR = ["env_samelen", "env_samelen", "tool_tok", "tool_tok", "src_mod", "src_mod", "class_tok", "pvar_samelen", "define_samelen", "tool_path"]
ALL_EDITS = ["tok", "class_tok", "env_val", "dep_env", "strong_weak", "undeclare", "declare", "dep_remove", "dep_add", "pvar", "tool_tok",
             "tool_path", "src_mod", "src_add", "src_del", "define", "menv", "default_env", "weak_env", "inc_mod"]


def recipes_flat(model):
    """(container dict, key, recipe dict) for plain recipes and multiPackage sub recipes"""
    out = []
    for n, r in model["recipes"].items():
        out.append((n, r))
    return out


def apply_edit(model, rnd, kinds=None):
    kinds = kinds or ALL_EDITS
    for _ in range(30):
        k = rnd.choice(kinds)
        d = _try(model, rnd, k)
        if d is not None:
            return d
    return ("noop",)


def _try(model, rnd, k):
    names = sorted(model["recipes"])
    n = rnd.choice(names)
    r = model["recipes"][n]
    if k == "tok":
        kind = rnd.choice([x for x in KINDS if (r.get("tok") or {}).get(x) is not None] or [None])
        if kind is None:
            return None
        r["tok"][kind] = new_tok(rnd)
        return ("tok", n, kind)
    if k == "class_tok":
        cs = sorted(model.get("classes", {}))
        if not cs:
            return None
        c = model["classes"][rnd.choice(cs)]
        c.setdefault("tok", {k_: None for k_ in KINDS})
        kind = rnd.choice(["build", "package"])
        c["tok"][kind] = new_tok(rnd) if (c["tok"].get(kind) is None or rnd.random() < 0.7) else None
        return ("class_tok", kind)
    if k == "env_val":
        if not r.get("env"):
            return None
        v = rnd.choice(sorted(r["env"]))
        old = r["env"][v]
        r["env"][v] = rnd.choice([x for x in VALS if x != old])
        return ("env_val", n, v, r["env"][v])
    if k in ("env_samelen", "pvar_samelen", "define_samelen"):
        swap = {"0": "1", "1": "x", "x": "0", "fast": "true", "true": "fast", "false": "a b c", "a b": "b a", "": " "}
        if k == "env_samelen":
            cands = [(m, v) for m in names for v, val in (model["recipes"][m].get("env") or {}).items() if val in swap]
            cands += [(m, d, v) for m in names for d in model["recipes"][m].get("depends", []) for v, val in (d.get("env") or {}).items() if val in swap]
            if not cands:
                return None
            c = rnd.choice(cands)
            if len(c) == 2:
                e = model["recipes"][c[0]]["env"]; e[c[1]] = swap[e[c[1]]]
                return ("env_samelen", c[0], c[1], e[c[1]])
            c[1]["env"][c[2]] = swap[c[1]["env"][c[2]]]
            return ("depenv_samelen", c[0], c[1]["name"], c[2], c[1]["env"][c[2]])
        if k == "pvar_samelen":
            cands = [(m, v) for m in names for v, val in (model["recipes"][m].get("pvars") or {}).items() if val in swap]
            if not cands:
                return None
            m, v = rnd.choice(cands); e = model["recipes"][m]["pvars"]; e[v] = swap[e[v]]
            return ("pvar_samelen", m, v, e[v])
        d = model.setdefault("defines", {})
        cands = [v for v, val in d.items() if val in swap]
        if not cands:
            v = rnd.choice(VARNAMES); d[v] = rnd.choice(["0", "fast"])
            return ("define", v, d[v])
        v = rnd.choice(cands); d[v] = swap[d[v]]
        return ("define_samelen", v, d[v])
    if k == "dep_env":
        if not r.get("depends"):
            return None
        d = rnd.choice(r["depends"])
        d.setdefault("env", {})
        v = rnd.choice(VARNAMES)
        if v in d["env"] and rnd.random() < 0.3:
            del d["env"][v]
        else:
            d["env"][v] = rnd.choice(VALS)
        return ("dep_env", n, d["name"], v, d["env"].get(v))
    if k == "strong_weak":
        kind = rnd.choice(KINDS[1:])
        strong, weak = r["vars"][kind], r.setdefault("weak", {k_: [] for k_ in KINDS})[kind]
        if strong and (not weak or rnd.random() < 0.5):
            v = rnd.choice(sorted(strong)); strong.remove(v); weak.append(v)
            return ("strong->weak", n, kind, v)
        if weak:
            v = rnd.choice(sorted(weak)); weak.remove(v); strong.append(v)
            return ("weak->strong", n, kind, v)
        return None
    if k == "undeclare":
        kind = rnd.choice(KINDS[1:])
        if not r["vars"][kind]:
            return None
        v = rnd.choice(sorted(r["vars"][kind])); r["vars"][kind].remove(v)
        return ("undeclare", n, kind, v)
    if k == "declare":
        kind = rnd.choice(KINDS[1:])
        v = rnd.choice(VARNAMES)
        if v in r["vars"][kind] or v in (r.get("weak") or {}).get(kind, []):
            return None
        r["vars"][kind].append(v)
        return ("declare", n, kind, v)
    if k == "dep_remove":
        if not r.get("depends"):
            return None
        # do not remove a provider of a consumed tool
        used = set(sum((r.get("tools") or {}).values(), [])) | set(sum((r.get("toolsWeak") or {}).values(), []))
        cands = [d for d in r["depends"] if not (set((_prov(model, d["name"]))) & used)]
        if not cands:
            return None
        d = rnd.choice(cands); r["depends"].remove(d)
        if r.get("pdeps") and d["name"] in r["pdeps"]:
            r["pdeps"].remove(d["name"])
        return ("dep_remove", n, d["name"])
    if k == "dep_add":
        flat = sorted(projgen.reachable(model))
        idx = names.index(n)
        have = {d["name"] for d in r.get("depends", [])}
        # keep it a DAG: only recipes that come later in the sorted name order of the generator (r<i> / list order)
        order = list(model["recipes"])
        later = []
        for m in order[order.index(n) + 1:]:
            if model["recipes"][m].get("multi"):
                later += [m + "-" + s for s in model["recipes"][m]["multi"]]
            else:
                later.append(m)
        cands = [m for m in later if m not in have]
        if not cands:
            return None
        m = rnd.choice(cands)
        d = {"name": m}
        if rnd.random() < 0.5:
            d["env"] = {rnd.choice(VARNAMES): rnd.choice(VALS)}
        r.setdefault("depends", []).append(d)
        return ("dep_add", n, m)
    if k == "pvar":
        if r.get("pvars") and rnd.random() < 0.7:
            v = rnd.choice(sorted(r["pvars"])); r["pvars"][v] = rnd.choice([x for x in VALS if x != r["pvars"][v]])
            return ("pvar", n, v, r["pvars"][v])
        r.setdefault("pvars", {})[rnd.choice(VARNAMES)] = rnd.choice(VALS)
        return ("pvar-add", n)
    if k in ("tool_tok", "tool_path"):
        provs = [m for m in names if model["recipes"][m].get("ptools")]
        if not provs:
            return None
        m = rnd.choice(provs); pr = model["recipes"][m]
        if k == "tool_tok":
            pr["tok"]["package"] = new_tok(rnd)
            return ("tool_tok", m)
        t = pr["ptools"][rnd.choice(sorted(pr["ptools"]))]
        ch = rnd.choice(["path", "libs", "env"])
        if ch == "path":
            t["path"] = "bin2" if t.get("path", "bin") == "bin" else "bin"
        elif ch == "libs":
            t["libs"] = rnd.choice([x for x in ([], ["lib"], ["lib2"], ["lib", "lib2"], ["lib2", "lib"]) if x != list(t.get("libs", []))])
        else:
            t.setdefault("env", {})["TE"] = rnd.choice(VALS)
        return ("tool_" + ch, m)
    if k in ("src_mod", "src_add", "src_del"):
        srcs = sorted(model.get("sources", {}))
        if not srcs:
            return None
        m = rnd.choice(srcs); files = model["sources"][m]
        if k == "src_mod" and files:
            f = rnd.choice(sorted(files)); files[f] = "mod-" + new_tok(rnd)
            return ("src_mod", m, f)
        if k == "src_add":
            f = rnd.choice(["new.c", "sub/new.h", "z.txt", "a.c"])
            files[f] = "add-" + new_tok(rnd)
            return ("src_add", m, f)
        if k == "src_del" and len(files) > 1:
            f = rnd.choice(sorted(files)); del files[f]
            return ("src_del", m, f)
        return None
    if k == "inc_mod":
        cands = [m for m in names if model["recipes"][m].get("includes")]
        if not cands:
            return None
        m = rnd.choice(cands); inc = model["recipes"][m]["includes"]
        ch = rnd.random()
        if ch < 0.6 or len(inc["files"]) < 2:
            f = rnd.choice(sorted(inc["files"])); inc["files"][f] = "changed-" + new_tok(rnd) + "\n"
            return ("inc_mod", m, f)
        if ch < 0.8:
            f = rnd.choice(sorted(inc["files"])); del inc["files"][f]
            return ("inc_del", m, f)
        inc["files"]["f-new-%s.txt" % new_tok(rnd)] = "new\n"
        return ("inc_add", m)
    if k == "define":
        v = rnd.choice(VARNAMES)
        d = model.setdefault("defines", {})
        if v in d and rnd.random() < 0.4:
            del d[v]
            return ("define-remove", v)
        d[v] = rnd.choice(VALS)
        return ("define", v, d[v])
    if k == "menv":
        r.setdefault("menv", {})["LICENSE"] = rnd.choice(["GPL", "MIT", "BSD", "Apache"])
        return ("menv", n)
    if k == "default_env":
        e = model.setdefault("default", {}).setdefault("environment", {})
        v = rnd.choice(VARNAMES)
        if v in e and rnd.random() < 0.4:
            del e[v]
        else:
            e[v] = rnd.choice(VALS)
        return ("default_env", v, e.get(v))
    if k == "weak_env":
        # change the value of a variable that is only weakly consumed somewhere: must not matter for results
        for m in names:
            for kind in KINDS:
                for v in (model["recipes"][m].get("weak") or {}).get(kind, []):
                    model["recipes"][m].setdefault("env", {})[v] = rnd.choice(VALS)
                    return ("weak_env", m, v)
        return None
    return None


def _prov(model, depname):
    r = projgen.reachable(model).get(depname)
    return sorted((r or {}).get("ptools", {}))
