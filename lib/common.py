"""Shared machinery of the runtime-monitoring checks (see DESIGN.md section 2).

Everything here is harness side.  The tree under test is $VERIF_REPO (default /repo); it is
never copied or cached, so each run observes the current working tree.
"""
import contextlib, hashlib, json, os, random, shutil, signal, subprocess, sys, tempfile, time

VERIF = os.path.dirname(os.path.dirname(os.path.abspath(__file__)))
REPO = os.path.abspath(os.environ.get("VERIF_REPO", "/repo"))
PY = "/venv/bin/python"
SCRATCH_ROOT = os.environ.get("VERIF_SCRATCH", "/var/tmp/bobverif")
BOBX = os.path.join(VERIF, "harness", "bobx.py")


def repo_path_setup():
    """Make `import bob` resolve to the tree under test (in-process workers)."""
    p = os.path.join(REPO, "pym")
    if p not in sys.path:
        sys.path.insert(0, p)


@contextlib.contextmanager
def scratch(prefix="s", root=None):
    root = root or SCRATCH_ROOT
    os.makedirs(root, exist_ok=True)
    d = tempfile.mkdtemp(prefix=prefix + "-", dir=root)
    try:
        yield d
    finally:
        rmtree(d)


def rmtree(d):
    if not os.path.lexists(d):
        return
    def onerr(func, path, exc):
        try:
            os.chmod(os.path.dirname(path), 0o700)
            os.chmod(path, 0o700)
            func(path)
        except OSError:
            pass
    for _ in range(3):
        shutil.rmtree(d, onerror=onerr)
        if not os.path.lexists(d):
            return
        # make everything writable and retry
        for p, ds, fs in os.walk(d):
            try:
                os.chmod(p, 0o700)
            except OSError:
                pass


def clean_env(extra=None, keep_host=False):
    """A small, deterministic host environment for bob subprocesses."""
    env = {
        "PATH": "/venv/bin:/usr/local/sbin:/usr/local/bin:/usr/sbin:/usr/bin:/sbin:/bin",
        "HOME": os.environ.get("HOME", "/root"),
        "LANG": "C.UTF-8",
        "TERM": "dumb",
        "USER": "root",
        "SHELL": "/bin/bash",
        "PYTHONHASHSEED": "0",
        "VERIF_REPO": REPO,
        "GIT_CONFIG_GLOBAL": os.path.join(VERIF, "harness", "gitconfig"),
        "GIT_CONFIG_NOSYSTEM": "1",
    }
    if keep_host:
        env = dict(os.environ, **env)
    if extra:
        env.update(extra)
    return env


class RunResult:
    def __init__(self, rc, out, err, timed_out, wall):
        self.returncode = rc; self.stdout = out; self.stderr = err
        self.timed_out = timed_out; self.wall = wall
    def tail(self, n=600):
        return ("rc=%s%s\n--out--\n%s\n--err--\n%s" % (self.returncode, " TIMEOUT" if self.timed_out else "",
                (self.stdout or "")[-n:], (self.stderr or "")[-n:]))


def run_proc(cmd, cwd=None, env=None, timeout=300, input=None, binary=False):
    """Run a process in its own session.  Output goes to temporary files, so that orphaned grand-children (a step script that
    outlives a killed bob, forkserver helpers) can never block us on an open pipe; once the process itself has exited (or the
    timeout hit) the whole process group is killed."""
    t0 = time.monotonic()
    fo = tempfile.TemporaryFile(); fe = tempfile.TemporaryFile()
    p = subprocess.Popen(cmd, cwd=cwd, env=env, stdin=subprocess.PIPE if input is not None else subprocess.DEVNULL,
                         stdout=fo, stderr=fe, start_new_session=True)
    timed_out = False
    try:
        if input is not None:
            try:
                p.stdin.write(input if binary else input.encode())
                p.stdin.close()
            except BrokenPipeError:
                pass
        try:
            p.wait(timeout=timeout)
        except subprocess.TimeoutExpired:
            timed_out = True
    finally:
        kill_group(p.pid)
        try:
            p.wait(timeout=10)
        except Exception:
            pass
    fo.seek(0); fe.seek(0)
    out, err = fo.read(), fe.read()
    fo.close(); fe.close()
    if not binary:
        out, err = out.decode("utf-8", "replace"), err.decode("utf-8", "replace")
    return RunResult(p.returncode, out, err, timed_out, time.monotonic() - t0)


def kill_group(pgid):
    try:
        os.killpg(pgid, signal.SIGKILL)
    except (ProcessLookupError, PermissionError):
        pass


def bob(args, cwd, env=None, timeout=300, monitors=None):
    """Run the real bob of the tree under test through the harness launcher."""
    e = clean_env(env)
    if monitors:
        e.update(monitors)
    return run_proc([PY, BOBX] + list(args), cwd=cwd, env=e, timeout=timeout)


def sha(*parts):
    h = hashlib.sha1()
    for p in parts:
        if isinstance(p, str):
            p = p.encode("utf-8", "surrogateescape")
        h.update(len(p).to_bytes(4, "little")); h.update(p)
    return h.hexdigest()


def subseed(seed, *tags):
    return int(sha(str(seed), *[str(t) for t in tags])[:12], 16)


# ------------------------------------------------------------------ results

def result(status="held", sigs=(), counters=None, violations=(), sample=None, note=None):
    """Result record of one case.

    status: held | trivial | inconclusive | violation
    sigs:   strings identifying the distinct non-trivial things this case exercised
    violations: list of dicts {mechanism, detail}
    """
    r = {"status": status, "sigs": list(sigs), "counters": counters or {}, "violations": list(violations)}
    if violations and status == "held":
        r["status"] = "violation"
    if sample is not None:
        r["sample"] = sample
    if note:
        r["note"] = note
    return r


def violation(mechanism, detail):
    return {"mechanism": mechanism, "detail": detail}
