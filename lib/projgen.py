"""Seeded generator of complete Bob projects (model -> files), script templates and edit operations.

The *model* is a plain JSON-able dict so that cases can be stored, replayed and edited:

  model = {"recipes": {name: R}, "classes": {name: R}, "sources": {recipe: {file: content}},
           "default": {...extra default.yaml keys...}, "defines": {K: V}, "aliases": {...}}
  R = {"root": bool, "inherit": [class], "depends": [D], "env": {}, "penv": {}, "menv": {},
       "vars": {"checkout": [], "build": [], "package": []}, "weak": {...same...},
       "tok": {"checkout": str|None, "build": str|None, "package": str|None},
       "src": bool (import SCM from src/<name>), "cdet": bool,
       "pvars": {}, "ptools": {tool: {"path": p, "libs": [..], "env": {}}}, "pdeps": [glob],
       "tools": {"checkout": [], "build": [], "package": []}, "toolsWeak": {...},
       "multi": {suffix: R-overrides}, "shared": bool, "relocatable": bool|None}
  D = {"name": str, "use": [..]|None, "forward": bool, "env": {}, "if": str|{"expr": str}|None, "checkoutDep": bool, "tools": {}}

Scripts are deterministic, path-free and output-total (DESIGN.md 2.3): a step writes `manifest.txt`, a hash/listing of
everything it consumes (own token, strong variables, argument trees, output of strong tools), overwriting it on every run,
and `mark-<h>` with h over the variant-id relevant inputs only.
"""
import json, os, random, shutil

KINDS = ("checkout", "build", "package")


class Expr(str):
    """marks a string that must be emitted with the !expr tag"""


def y(obj, indent=0):
    """Emit YAML (JSON flow style is valid YAML; !expr handled)."""
    if isinstance(obj, dict) and obj.get("__expr__") is not None:
        return "!expr " + json.dumps(obj["__expr__"])
    if isinstance(obj, dict):
        if not obj:
            return "{}"
        pad = "  " * indent
        return "\n" + "\n".join("%s%s: %s" % (pad, json.dumps(str(k)), y(v, indent + 1)) for k, v in obj.items())
    if isinstance(obj, list):
        if not obj:
            return "[]"
        pad = "  " * indent
        out = []
        for v in obj:
            s = y(v, indent + 1)
            if s.startswith("\n"):
                # nested mapping inside list: put first key on the dash line
                lines = s[1:].split("\n")
                first = lines[0].lstrip()
                out.append("%s- %s" % (pad, first))
                out.extend(lines[1:])
            else:
                out.append("%s- %s" % (pad, s))
        return "\n" + "\n".join(out)
    return json.dumps(obj)


def script_for(name, kind, r, model):
    tok = (r.get("tok") or {}).get(kind)
    if tok is None:
        return None
    strong = sorted((r.get("vars") or {}).get(kind, []))
    tools = sorted((r.get("tools") or {}).get(kind, []))
    lines = []
    if model.get("ctl"):
        # step control (C05/C06): fail after partial output, kill bob during the script, or sleep, when the harness asks for it
        out0 = {"checkout": "gen-%s.txt" % name.replace("/", "_"), "build": "manifest.txt", "package": "manifest.txt"}[kind]
        tag = "%s.%s" % (name.replace("/", "_"), kind)
        lines += ['_ctl="${VERIF_CTL:-/nonexistent}/%s"' % tag,
                  'if [ -e "$_ctl.sleep" ]; then sleep "$(cat "$_ctl.sleep")"; fi',
                  'echo "START %s %s $PWD $$ $EPOCHREALTIME" >> "${VERIF_EVLOG:-/dev/null}"' % (name, kind),
                  'echo "ARGS %s %s $PWD $(for _i in "$@" "${BOB_TOOL_PATHS[@]}"; do [ -d "$_i" ] && (cd "$_i" && pwd); done | tr "\n" " ")" >> "${VERIF_EVLOG:-/dev/null}"' % (name, kind),
                  'if [ -e "$_ctl.fail" ] || [ -e "$_ctl.kill" ]; then echo "partial output of an aborted run" > %s; %s' % (out0, ("echo stray > stray-partial; " if kind == "package" else "")),
                  '  if [ -e "$_ctl.kill" ]; then kill -9 "$(cat "${VERIF_CTL}/bobpid")"; sleep 30; fi; exit 1; fi']
    lines += ["{", '  echo "token=%s"' % tok]
    for v in strong:
        lines.append('  echo "%s=${%s-<unset>}"' % (v, v))
    if kind != "checkout":
        lines.append('  n=0; for i in "$@"; do n=$((n+1)); echo "arg$n:"; [ -d "$i" ] && (cd "$i" && find . \\( -type f -o -type l \\) ! -name "envdump*" | LC_ALL=C sort | while read -r f; do if [ -L "$f" ]; then echo "L $f $(readlink "$f")"; else echo "F $f $(sha1sum < "$f" | cut -c1-16)"; fi; done); done')
    for t in tools:
        lines.append('  echo "tool %s: $(tool-%s 2>&1)"' % (t, t))
    out = {"checkout": "gen-%s.txt" % name.replace("/", "_"), "build": "manifest.txt", "package": "manifest.txt"}[kind]
    lines.append("} > %s" % out)
    if kind != "checkout" and model.get("markers", True):
        mv = "".join("${%s-}|" % v for v in strong)
        lines.append('touch "mark-$(echo "%s|%s" | sha1sum | cut -c1-10)"' % (tok, mv))
    if kind == "package":
        for tname, t in sorted((r.get("ptools") or {}).items()):
            # the script is independent of the provideTools settings (path, libs, environment): both candidate directories are populated
            lines.append("mkdir -p bin bin2 lib lib2")
            for pth in ("bin", "bin2"):
                # the tool's behaviour depends on everything its package consumed (its manifest), not only on the recipe
                calls = "".join("\ntool-%s" % c for c in t.get("calls", []))      # a tool may run the tools it depends on (dependTools)
                lines.append("cat > %s/tool-%s <<'EOT'\n#!/bin/sh\necho \"id-%s-%s $(sha1sum < \"$(dirname \"$0\")/../manifest.txt\" | cut -c1-12)\"%s\nEOT\nchmod +x %s/tool-%s"
                             % (pth, tname, tname, tok, calls, pth, tname))
            lines.append("echo lib-%s > lib/lib.txt; echo lib2-%s > lib2/lib.txt" % (tok, tok))
    if model.get("evlog"):
        lines.append('echo "EXEC %s %s $PWD" >> "${VERIF_EVLOG:-/dev/null}"' % (name, kind))
    if model.get("ctl"):
        lines.append('echo "END %s %s $PWD $$ $EPOCHREALTIME" >> "${VERIF_EVLOG:-/dev/null}"' % (name, kind))
    inc = r.get("includes")
    if inc and inc.get("kind", "build") == kind:
        lines.append("cat $<<%s/%s>> > /dev/null" % (inc["dir"], inc["pattern"]))
        if inc.get("quoted"):
            lines.append("echo $<'%s/%s'> > /dev/null" % (inc["dir"], inc["pattern"]))
    extra = (r.get("extra") or {}).get(kind)
    if extra:
        lines.append(extra)
    return "\n".join(lines) + "\n"


def recipe_doc(name, r, model, is_class=False):
    d = {}
    if r.get("root"):
        d["root"] = True
    if r.get("inherit"):
        d["inherit"] = list(r["inherit"])
    if r.get("shared"):
        d["shared"] = True
    if r.get("relocatable") is not None:
        d["relocatable"] = r["relocatable"]
    deps = []
    for dep in r.get("depends", []):
        e = {"name": dep["name"]}
        if dep.get("use") is not None:
            e["use"] = list(dep["use"])
        if dep.get("forward"):
            e["forward"] = True
        if dep.get("env"):
            e["environment"] = dict(dep["env"])
        if dep.get("if") is not None:
            e["if"] = dep["if"]
        if dep.get("checkoutDep"):
            e["checkoutDep"] = True
        if dep.get("tools"):
            e["tools"] = dict(dep["tools"])
        deps.append(e if len(e) > 1 else dep["name"])
    if deps:
        d["depends"] = deps
    for key, mk in (("env", "environment"), ("penv", "privateEnvironment"), ("menv", "metaEnvironment"), ("pvars", "provideVars")):
        if r.get(key):
            d[mk] = dict(r[key])
    for kind in KINDS:
        v = (r.get("vars") or {}).get(kind)
        if v:
            d[kind + "Vars"] = sorted(v)
        w = (r.get("weak") or {}).get(kind)
        if w:
            d[kind + "VarsWeak"] = sorted(w)
        t = (r.get("tools") or {}).get(kind)
        if t:
            d[kind + "Tools"] = sorted(t)
        tw = (r.get("toolsWeak") or {}).get(kind)
        if tw:
            d[kind + "ToolsWeak"] = sorted(tw)
        s = script_for(name, kind, r, model)
        if s is not None:
            d[kind + "Script"] = s
    if r.get("src"):
        d["checkoutSCM"] = {"scm": "import", "url": "src/" + r["src"] if isinstance(r["src"], str) else "src/" + name.replace("/", "_"), "prune": True}
    if r.get("scm"):
        d["checkoutSCM"] = r["scm"]
    if r.get("cdet") is not None and (r.get("tok") or {}).get("checkout") is not None:
        d["checkoutDeterministic"] = bool(r["cdet"])
    if r.get("ptools"):
        pt = {}
        for tname, t in r["ptools"].items():
            e = {"path": t.get("path", "bin")}
            if t.get("libs"):
                e["libs"] = list(t["libs"])
            if t.get("env"):
                e["environment"] = dict(t["env"])
            if t.get("dependTools"):
                e["dependTools"] = list(t["dependTools"])
            pt[tname] = e
        d["provideTools"] = pt
    if r.get("pdeps"):
        d["provideDeps"] = list(r["pdeps"])
    if r.get("psandbox"):
        d["provideSandbox"] = r["psandbox"]
    if r.get("fingerprint"):
        d.update(r["fingerprint"])
    if r.get("raw"):
        d.update(r["raw"])
    if r.get("multi"):
        d["multiPackage"] = {suffix: recipe_doc(name + "-" + suffix, sub, model) for suffix, sub in r["multi"].items()}
    return d


def write_project(root, model, only_recipes=False):
    """(Re)write the project files of `model` below root. Existing recipes/classes/src directories are replaced."""
    os.makedirs(root, exist_ok=True)
    for sub in ("recipes", "classes") + (() if only_recipes else ("src",)):
        shutil.rmtree(os.path.join(root, sub), ignore_errors=True)
    os.makedirs(os.path.join(root, "recipes"))
    cfg = {"bobMinimumVersion": "1.0"}
    cfg.update(model.get("config", {}))
    _write(os.path.join(root, "config.yaml"), y(cfg).lstrip("\n") + "\n")
    dflt = dict(model.get("default", {}))
    if model.get("aliases"):
        dflt["alias"] = dict(model["aliases"])
    if dflt:
        _write(os.path.join(root, "default.yaml"), y(dflt).lstrip("\n") + "\n")
    elif os.path.exists(os.path.join(root, "default.yaml")):
        os.unlink(os.path.join(root, "default.yaml"))
    for name, r in model["recipes"].items():
        p = os.path.join(root, "recipes", name + ".yaml")
        os.makedirs(os.path.dirname(p), exist_ok=True)
        _write(p, y(recipe_doc(name, r, model)).lstrip("\n") + "\n")
    for name, r in model["recipes"].items():
        inc = r.get("includes")
        if inc:
            d = os.path.join(root, "recipes", os.path.dirname(name), inc["dir"])
            os.makedirs(d, exist_ok=True)
            order = list(inc["files"].items())
            if model.get("reverse_files"):
                order.reverse()
            for fn, content in order:
                _write(os.path.join(d, fn), content)
    if model.get("classes"):
        os.makedirs(os.path.join(root, "classes"), exist_ok=True)
        for name, r in model["classes"].items():
            _write(os.path.join(root, "classes", name + ".yaml"), y(recipe_doc(name, r, model, True)).lstrip("\n") + "\n")
    for fname, content in model.get("files", {}).items():
        p = os.path.join(root, fname)
        os.makedirs(os.path.dirname(p), exist_ok=True)
        _write(p, content)
    if not only_recipes:
        for rname, files in model.get("sources", {}).items():
            d = os.path.join(root, "src", rname.replace("/", "_"))
            os.makedirs(d, exist_ok=True)
            for fn, content in files.items():
                p = os.path.join(d, fn)
                os.makedirs(os.path.dirname(p), exist_ok=True)
                _write(p, content)


def _write(p, content):
    with open(p, "w") as f:
        f.write(content)


def define_args(model):
    out = []
    for k, v in sorted(model.get("defines", {}).items()):
        out.append("-D%s=%s" % (k, v))
    return out


# ------------------------------------------------------------------ random models

VARNAMES = ["VA", "VB", "VC", "FLAVOUR", "MODE"]
VALS = ["0", "1", "x", "fast", "", "a b", "true", "false"]


def new_tok(rnd):
    return "t%04x" % rnd.randrange(1 << 16)


def gen_model(rnd, n=6, features=()):
    """A random DAG of n recipes r0..r(n-1) (edges only to higher indices), r0 is root.

    features: subset of {"classes", "multi", "tools", "pdeps", "src", "if", "expr", "weak", "menv", "fwd", "shared", "checkoutscript",
                         "alias", "roots2", "casefold"}
    """
    f = set(features)
    names = ["r%d" % i for i in range(n)]
    if "names" in f:
        pool = ["app", "lib-a", "lib-b", "libc", "tool", "base", "util", "lib-a-dev", "core", "App", "lib.x", "lib+x"]
        rnd.shuffle(pool)
        names = pool[:n]
        names[0] = "root"
    model = {"recipes": {}, "classes": {}, "sources": {}, "defines": {}, "default": {}}
    if "classes" in f:
        for ci in range(rnd.randrange(1, 3)):
            c = {"vars": {k: [] for k in KINDS}, "tok": {k: None for k in KINDS}, "env": {}}
            if rnd.random() < 0.6:
                c["env"]["CV%d" % ci] = rnd.choice(VALS)
                c["vars"]["build"].append("CV%d" % ci)
            if rnd.random() < 0.5:
                c["tok"]["build"] = new_tok(rnd)
            model["classes"]["cls%d" % ci] = c
    for i, name in enumerate(names):
        r = {"vars": {k: [] for k in KINDS}, "weak": {k: [] for k in KINDS}, "tok": {"checkout": None, "build": new_tok(rnd), "package": new_tok(rnd)},
             "env": {}, "penv": {}, "menv": {}, "depends": [], "tools": {k: [] for k in KINDS}, "toolsWeak": {k: [] for k in KINDS}}
        if i == 0:
            r["root"] = True
        if "roots2" in f and i == 1 and rnd.random() < 0.6:
            r["root"] = True
        if model["classes"] and rnd.random() < 0.5:
            r["inherit"] = rnd.sample(sorted(model["classes"]), rnd.randrange(1, len(model["classes"]) + 1))
        # dependencies to higher indices
        cands = names[i + 1:]
        ndeps = rnd.choice([0, 1, 1, 2, 2, 3])
        if i == 0:
            ndeps = max(ndeps, 2)       # the root should reach something
        for dname in rnd.sample(cands, min(len(cands), ndeps)):
            d = {"name": dname}
            if rnd.random() < 0.4:
                d["env"] = {rnd.choice(VARNAMES): rnd.choice(VALS)}
            if "fwd" in f and rnd.random() < 0.2:
                d["forward"] = True
            if rnd.random() < 0.6:
                use = ["result"]
                if rnd.random() < 0.7: use.append("tools")
                if rnd.random() < 0.7: use.append("environment")
                if rnd.random() < 0.7: use.append("deps")
                d["use"] = use
            if "if" in f and rnd.random() < 0.25:
                v = rnd.choice(VARNAMES)
                if "expr" in f and rnd.random() < 0.5:
                    d["if"] = {"__expr__": rnd.choice(['"${%s}" == "1"', '!"${%s:-}"', '"${%s:-x}" != "x" || "1"']) % v}
                else:
                    d["if"] = rnd.choice(["${%s:-1}", "$(ne,${%s:-},0)", "$(or,${%s:-},true)"]) % v
            r["depends"].append(d)
        # environment and consumed variables
        for v in rnd.sample(VARNAMES, rnd.randrange(0, 3)):
            if rnd.random() < 0.6:
                r["env"][v] = rnd.choice(VALS) if rnd.random() < 0.7 else "${%s:-%s}" % (rnd.choice(VARNAMES), rnd.choice(VALS))
            kind = rnd.choice(KINDS[1:])
            if "weak" in f and rnd.random() < 0.25:
                r["weak"][kind].append(v)
            else:
                r["vars"][kind].append(v)
        if rnd.random() < 0.3:
            r["penv"]["PV" + rnd.choice("AB")] = rnd.choice(["${%s:-dflt}" % rnd.choice(VARNAMES), rnd.choice(VALS)])
            r["vars"]["build"].append(sorted(r["penv"])[0])
        if "menv" in f and rnd.random() < 0.5:
            r["menv"]["LICENSE"] = rnd.choice(["GPL", "MIT", "BSD"])
            if rnd.random() < 0.3:
                r["menv"]["VERSION"] = rnd.choice(["1", "2"])
        if rnd.random() < 0.35:
            r["pvars"] = {rnd.choice(VARNAMES): rnd.choice(VALS + ["${%s:-p}" % rnd.choice(VARNAMES)])}
        if "src" in f and rnd.random() < 0.5:
            r["src"] = True
            model["sources"][name] = {"a.c": "a-" + new_tok(rnd), "sub/b.h": "b-" + new_tok(rnd)}
        if "checkoutscript" in f and rnd.random() < 0.3:
            r["tok"]["checkout"] = new_tok(rnd)
            r["cdet"] = True if "shared" in f else rnd.random() < 0.7
        if "tools" in f and i > 0 and rnd.random() < 0.3:
            tn = "t%d" % i
            r["ptools"] = {tn: {"path": "bin", "libs": rnd.choice([[], [], ["lib"], ["lib2"], ["lib", "lib2"], ["lib2", "lib"]]), "env": ({"TE": rnd.choice(VALS)} if rnd.random() < 0.3 else {})}}
        if "pdeps" in f and r["depends"] and rnd.random() < 0.3:
            r["pdeps"] = ["*"]      # refined below (after multiPackage names are known)
        if "includes" in f and rnd.random() < 0.4:
            r["includes"] = {"dir": "inc_" + name.replace("/", "_").replace("+", "p").replace(".", "d"), "pattern": rnd.choice(["*.txt", "f*", "*"]), "quoted": rnd.random() < 0.5,
                             "kind": rnd.choice(["build", "package"]),
                             "files": {fn: "content-" + new_tok(rnd) + "\n" for fn in rnd.sample(["f1.txt", "f2.txt", "f10.txt", "fa.txt", "fB.txt", "f-x.txt", "f_y.txt", "f.txt"], rnd.randrange(2, 7))}}
        if "shared" in f and rnd.random() < 0.2:
            r["shared"] = True
        if "multi" in f and i > 0 and rnd.random() < 0.2:
            r["multi"] = {"a": {"tok": {"checkout": None, "build": None, "package": new_tok(rnd)}, "vars": {k: [] for k in KINDS}},
                          "b": {"tok": {"checkout": None, "build": new_tok(rnd), "package": new_tok(rnd)}, "vars": {k: [] for k in KINDS},
                                "env": {"MP": "b"}}}
        model["recipes"][name] = r
    # multiPackage recipes are referred to as name-a / name-b
    multis = {n_: sorted(r["multi"]) for n_, r in model["recipes"].items() if r.get("multi")}
    if multis:
        for r in model["recipes"].values():
            for d in r["depends"]:
                if d["name"] in multis:
                    d["name"] = d["name"] + "-" + rnd.choice(multis[d["name"]])
    for r in model["recipes"].values():
        if r.get("pdeps") and rnd.random() < 0.6:
            r["pdeps"] = [rnd.choice([d["name"] for d in r["depends"]])]
    # tool consumption: a recipe can use tools provided by its (tool-using) dependencies
    if "tools" in f:
        providers = {n_: sorted(r["ptools"]) for n_, r in model["recipes"].items() if r.get("ptools")}
        for name, r in model["recipes"].items():
            avail = []
            for d in r["depends"]:
                base = d["name"]
                if base in providers and (d.get("use") is None or "tools" in d["use"]):
                    avail += providers[base]
                    d.pop("if", None)       # a consumed tool must be there in every context
            for t in avail:
                kind = rnd.choice(KINDS[1:])
                if "weak" in f and rnd.random() < 0.3:
                    r["toolsWeak"][kind].append(t)
                else:
                    r["tools"][kind].append(t)
    if "alias" in f:
        model["aliases"] = {"myroot": names[0], "all": "//*"}
    return model


def reachable(model):
    """names of recipes (multiPackage resolved) reachable from roots, following all depends (ignoring conditions)"""
    idx = {}
    for n_, r in model["recipes"].items():
        if r.get("multi"):
            for s in r["multi"]:
                idx[n_ + "-" + s] = r
        else:
            idx[n_] = r
    return idx


def focused_model(rnd):
    """A fixed-shape project in which every mechanism of the incremental build logic has exactly one obvious consumer:
    root(build: strong vars X, PV, DV; weak W; strong tool t1; class cls) -> lib(src, build: Y, DV; provides PV) -> base(src, det. checkout script)
    root -> tl (provides tool t1 with libs), root -> mp-a / mp-b (multiPackage)."""
    T = lambda: new_tok(rnd)
    k0 = lambda: {k: [] for k in KINDS}
    m = {"recipes": {}, "classes": {}, "sources": {}, "defines": {}, "default": {}, "evlog": True}
    m["classes"]["cls"] = {"vars": {"checkout": [], "build": ["CV"], "package": []}, "tok": {"checkout": None, "build": T(), "package": None}, "env": {"CV": "0"}}
    m["recipes"]["root"] = {"root": True, "inherit": ["cls"], "env": {"X": "0", "W": "w0", "Z": "1"}, "penv": {}, "menv": {"LICENSE": "MIT"},
        "vars": {"checkout": [], "build": ["X", "PV"], "package": ["Z"]}, "weak": {"checkout": [], "build": ["W"], "package": []},
        "tok": {"checkout": None, "build": T(), "package": T()}, "tools": {"checkout": [], "build": ["t1"], "package": []}, "toolsWeak": k0(),
        "depends": [{"name": "lib", "env": {"DV": "0"}, "use": ["result", "environment", "deps"]}, {"name": "tl", "use": ["tools"]},
                    {"name": "mp-a"}, {"name": "mp-b", "env": {"DV": "1"}}]}
    m["recipes"]["lib"] = {"env": {"Y": "1"}, "vars": {"checkout": [], "build": ["Y", "DV"], "package": []}, "weak": k0(), "src": True,
        "tok": {"checkout": None, "build": T(), "package": T()}, "pvars": {"PV": "fast"}, "tools": k0(), "toolsWeak": k0(),
        "depends": [{"name": "base"}]}
    m["recipes"]["base"] = {"env": {}, "vars": k0(), "weak": k0(), "src": True, "cdet": True,
        "tok": {"checkout": T(), "build": T(), "package": T()}, "tools": k0(), "toolsWeak": k0(), "depends": []}
    m["recipes"]["tl"] = {"env": {}, "vars": k0(), "weak": k0(), "src": True, "tok": {"checkout": None, "build": T(), "package": T()},
        "ptools": {"t1": {"path": "bin", "libs": ["lib"], "env": {"TE": "0"}}}, "tools": k0(), "toolsWeak": k0(), "depends": [{"name": "base"}]}
    m["recipes"]["mp"] = {"env": {}, "vars": {"checkout": [], "build": ["DV"], "package": []}, "weak": k0(), "tok": {"checkout": None, "build": T(), "package": None},
        "tools": k0(), "toolsWeak": k0(), "depends": [],
        "multi": {"a": {"tok": {"checkout": None, "build": None, "package": T()}, "vars": k0()},
                  "b": {"tok": {"checkout": None, "build": T(), "package": T()}, "vars": k0(), "env": {"MP": "b"}}}}
    m["sources"] = {"lib": {"a.c": "a-" + T(), "sub/b.h": "b-" + T()}, "base": {"base.txt": "base-" + T()}, "tl": {"tool.c": "tool-" + T()}}
    return m


def focused_edits(rnd):
    """list of (label, fn(model)) single-factor edits for focused_model"""
    T = lambda: new_tok(rnd)
    sw = {"0": "1", "1": "0", "fast": "true", "true": "fast", "w0": "w1", "w1": "w0"}
    def setv(path, key):
        def f(m):
            d = m
            for p in path:
                d = d[p]
            d[key] = sw.get(d[key], "0")
        return f
    def tool(field):
        def f(m):
            t = m["recipes"]["tl"]["ptools"]["t1"]
            if field == "path": t["path"] = "bin2" if t["path"] == "bin" else "bin"
            elif field == "libs": t["libs"] = [] if t["libs"] else ["lib"]
            else: t["env"]["TE"] = sw.get(t["env"]["TE"], "0")
        return f
    def src(name, op):
        def f(m):
            files = m["sources"][name]
            if op == "mod": files[sorted(files)[0]] = "mod-" + T()
            elif op == "add": files["new-%s.c" % T()] = "new"
            else:
                extra = [x for x in files if x.startswith("new-")]
                if extra: del files[extra[0]]
                else: files["new-x.c"] = "x"
        return f
    def tok(rec, kind, container="recipes"):
        def f(m): m[container][rec]["tok"][kind] = T()
        return f
    def define(v):
        def f(m):
            d = m["defines"]
            if v in d: del d[v]
            else: d[v] = "1"
        return f
    def dflt(v):
        def f(m):
            e = m["default"].setdefault("environment", {})
            e[v] = sw.get(e.get(v, "1"), "0")
        return f
    def depenv(i):
        def f(m):
            d = m["recipes"]["root"]["depends"][i]
            d["env"]["DV"] = sw.get(d["env"]["DV"], "0")
        return f
    def move_weak(m):
        r = m["recipes"]["root"]
        if "X" in r["vars"]["build"]:
            r["vars"]["build"].remove("X"); r["weak"]["build"].append("X")
        else:
            r["weak"]["build"].remove("X"); r["vars"]["build"].append("X")
    def drop_dep(m):
        r = m["recipes"]["root"]
        if any(d["name"] == "mp-a" for d in r["depends"]):
            r["depends"] = [d for d in r["depends"] if d["name"] != "mp-a"]
        else:
            r["depends"].append({"name": "mp-a"})
    return [
        ("root-build-var-samelen", setv(["recipes", "root", "env"], "X")),
        ("root-package-var-samelen", setv(["recipes", "root", "env"], "Z")),
        ("root-weak-var", setv(["recipes", "root", "env"], "W")),
        ("lib-build-var-samelen", setv(["recipes", "lib", "env"], "Y")),
        ("dep-env-samelen", depenv(0)),
        ("multipackage-dep-env-samelen", depenv(3)),
        ("provided-var-samelen", setv(["recipes", "lib", "pvars"], "PV")),
        ("class-var-samelen", setv(["classes", "cls", "env"], "CV")),
        ("tool-content", tok("tl", "package")),
        ("tool-build-script", tok("tl", "build")),
        ("tool-path", tool("path")), ("tool-libs", tool("libs")), ("tool-env", tool("env")),
        ("tool-source-mod", src("tl", "mod")), ("lib-source-mod", src("lib", "mod")), ("base-source-mod", src("base", "mod")), ("lib-source-add", src("lib", "add")), ("lib-source-del", src("lib", "del")),
        ("class-build-script", tok("cls", "build", "classes")),
        ("base-checkout-script", tok("base", "checkout")), ("base-package-script", tok("base", "package")),
        ("mp-parent-build-script", tok("mp", "build")),
        ("define-X", define("X")), ("define-DV", define("DV")), ("default-env-Y", dflt("Y")), ("default-env-unused", dflt("UNUSED")),
        ("strong<->weak-X", move_weak), ("dep-remove/add", drop_dep),
    ]
