"""Full dump of the package graph through the public Package/Step API (used by C02 C03 C04 C20)."""
import hashlib, json, os
from . import bobapi


def step_dump(s, with_scripts=True):
    if not s.isValid():
        return None
    d = {
        "vid": s.getVariantId().hex(),
        "env": sorted(s.getEnv().items()),
        "tools": sorted((n, t.getStep().getVariantId().hex(), t.getPath(), list(t.getLibs())) for n, t in s.getTools().items()),
        "args": [a.getVariantId().hex() for a in s.getArguments() if a.isValid()],
        "sandbox": (s.getSandbox().getStep().getVariantId().hex() if s.getSandbox() is not None else None),
        "det": s.isDeterministic(),
    }
    if with_scripts:
        d["script"] = s.getMainScript()
        d["setup"] = s.getSetupScript()
        d["digestScript"] = s.getDigestScript()
    if s.isPackageStep():
        d["shared"] = s.isShared()
        d["relocatable"] = s.isRelocatable()
    return d


def tree_dump(ps, with_scripts=True, max_paths=3000):
    """list of entries, one per package *path* (every alternative path is visited)"""
    out = []
    def walk(p):
        if len(out) > max_paths:
            raise OverflowError("too many package paths")
        out.append({
            "path": "/".join(p.getStack()), "name": p.getName(), "recipe": p.getRecipe().getName(),
            "checkout": step_dump(p.getCheckoutStep(), with_scripts), "build": step_dump(p.getBuildStep(), with_scripts),
            "package": step_dump(p.getPackageStep(), with_scripts), "metaEnv": sorted(p.getMetaEnv().items()),
            "direct": [s.getPackage().getName() for s in p.getDirectDepSteps()],
            "indirect": [s.getPackage().getName() for s in p.getIndirectDepSteps()],
        })
        for name, (c, direct) in sorted(bobapi.children(p).items()):
            walk(c)
    root = ps.getRootPackage()
    for name, (c, direct) in sorted(bobapi.children(root).items()):
        walk(c)
    return out


def digest(dump):
    return hashlib.sha1(json.dumps(dump, sort_keys=True).encode()).hexdigest()


def first_difference(a, b):
    """human readable first difference of two tree dumps"""
    da = {e["path"]: e for e in a}; db = {e["path"]: e for e in b}
    for p in sorted(set(da) | set(db)):
        if p not in da or p not in db:
            return {"path": p, "only_in": "first" if p in da else "second"}
        if da[p] != db[p]:
            for k in da[p]:
                if da[p][k] != db[p][k]:
                    x, y = da[p][k], db[p][k]
                    if isinstance(x, dict) and isinstance(y, dict):
                        for kk in x:
                            if x[kk] != y.get(kk):
                                return {"path": p, "field": k + "." + kk, "first": str(x[kk])[:300], "second": str(y.get(kk))[:300]}
                    return {"path": p, "field": k, "first": str(x)[:300], "second": str(y)[:300]}
    return None
