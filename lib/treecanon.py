"""Independent canonical serialisation of a directory tree (shares no code with bob.utils.DirHasher).

Record per entry below the root: (relative name bytes, type, permission bits, sha256 of content | link target).
Directories named .git/.svn/.portage-cache are skipped at every depth (documented SCM metadata).
"""
import hashlib, os, stat

SCM_DIRS = (b".git", b".svn", b".portage-cache")

def canon(root, ignore_dirs=SCM_DIRS, with_perm=True):
    root = os.fsencode(root)
    out = []
    def walk(rel):
        d = os.path.join(root, rel) if rel else root
        for name in sorted(os.listdir(d)):
            r = os.path.join(rel, name) if rel else name
            p = os.path.join(root, r)
            st = os.lstat(p)
            perm = stat.S_IMODE(st.st_mode) if with_perm else 0
            if stat.S_ISDIR(st.st_mode):
                if name in ignore_dirs:
                    continue
                out.append((r, "d", perm, b""))
                walk(r)
            elif stat.S_ISLNK(st.st_mode):
                out.append((r, "l", perm, os.readlink(p)))
            elif stat.S_ISREG(st.st_mode):
                with open(p, "rb") as f:
                    out.append((r, "f", perm, hashlib.sha256(f.read()).digest()))
            else:
                out.append((r, "o%o" % stat.S_IFMT(st.st_mode), perm, str(st.st_rdev).encode()))
    walk(b"")
    out.sort()
    return out

def digest(root, **kw):
    h = hashlib.sha256()
    for r in canon(root, **kw):
        for f in (r[0], r[1].encode(), str(r[2]).encode(), r[3]):
            h.update(len(f).to_bytes(4, "little")); h.update(f)
    return h.hexdigest()

def describe(root, limit=40, **kw):
    return [(os.fsdecode(r[0]), r[1], "%o" % r[2], r[3].hex()[:12] if r[1] == "f" else os.fsdecode(r[3])) for r in canon(root, **kw)[:limit]]

def diff(a, b, limit=12, **kw):
    ca = {r[0]: r for r in canon(a, **kw)}; cb = {r[0]: r for r in canon(b, **kw)}
    out = []
    for k in sorted(set(ca) | set(cb)):
        if ca.get(k) != cb.get(k):
            fmt = lambda r: None if r is None else (r[1], "%o" % r[2], r[3].hex()[:12] if r[1] == "f" else os.fsdecode(r[3]))
            out.append((os.fsdecode(k), fmt(ca.get(k)), fmt(cb.get(k))))
            if len(out) >= limit: break
    return out
