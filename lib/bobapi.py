"""In-process access to the real package graph of a project (runs inside worker processes)."""
import contextlib, os, sys
from . import common


@contextlib.contextmanager
def project(path, defines=None, sandbox=False, query_mode=None, config_files=()):
    """chdir into the project, parse with the real RecipeSet, yield (recipes, packages); always finalize BobState."""
    common.repo_path_setup()
    from bob.input import RecipeSet
    from bob.state import finalize
    old = os.getcwd()
    os.chdir(path)
    packages = None
    try:
        recipes = RecipeSet()
        if config_files:
            recipes.setConfigFiles(list(config_files))
        if query_mode:
            RecipeSet.setQueryMode(query_mode)
        recipes.parse(dict(defines or {}))
        packages = recipes.generatePackages(lambda s, m: os.path.join("work", s.getPackage().getName().replace("::", "/"), s.getLabel()), sandbox)
        yield recipes, packages
    finally:
        try:
            if packages is not None:
                packages.close()
        except Exception:
            pass
        try:
            finalize()
        finally:
            os.chdir(old)


def children(pkg):
    """name -> (child package, direct?) as the documentation defines the child axis: direct dependencies plus
    provided (indirect) ones whose name is not shadowed by a direct dependency"""
    out = {}
    for s in pkg.getDirectDepSteps():
        p = s.getPackage()
        out[p.getName()] = (p, True)
    for s in pkg.getIndirectDepSteps():
        p = s.getPackage()
        out.setdefault(p.getName(), (p, False))
    return out


def gen_valid_model(rnd, gen, attempts=10):
    """Generate models until the real parser accepts one (Bob refuses some generated shapes by design, e.g. incompatible
    provided variants).  Returns None if none was accepted."""
    import shutil
    common.repo_path_setup()
    from bob.errors import BobError
    from . import projgen
    for _ in range(attempts):
        model = gen()
        with common.scratch("val", root="/dev/shm/bobverif" if os.path.isdir("/dev/shm") else None) as d:
            projgen.write_project(d, model)
            try:
                with project(d, defines=model.get("defines")) as (rs, ps):
                    list(ps.queryPackagePath("//*"))
                return model
            except BobError:
                continue
    return None
