#!/venv/bin/python
"""Run checks against a mutated scratch worktree of /repo.

usage: mutcheck.py PATCH.diff Cxx [Cyy ...] [--tier quick] [--seed N] [--keep]
Prints CAUGHT/MISSED per check.  The worktree lives under /tmp/wt and is removed afterwards.
(Registered checks always run against /repo itself; this is only the self-test helper.)
"""
import os, subprocess, sys, tempfile, shutil
args = [a for a in sys.argv[1:] if not a.startswith("--")]
opts = sys.argv[1:]
patch = os.path.abspath(args[0]); props = args[1:]
tier = opts[opts.index("--tier") + 1] if "--tier" in opts else "quick"
seed = opts[opts.index("--seed") + 1] if "--seed" in opts else "0"
if "--tier" in opts: props = [p for p in props if p != tier]
if "--seed" in opts: props = [p for p in props if p != seed]
os.makedirs("/tmp/wt", exist_ok=True)
wt = tempfile.mkdtemp(prefix="mut-", dir="/tmp/wt"); os.rmdir(wt)
subprocess.run(["git", "-C", "/repo", "worktree", "add", "-q", "--detach", wt, "HEAD"], check=True)
rc = 0
try:
    # carry over uncommitted changes of /repo's working tree?  no: mutants are relative to HEAD
    r = subprocess.run(["git", "-C", wt, "apply", patch])
    if r.returncode:
        sys.exit("patch does not apply")
    for p in props:
        env = dict(os.environ, VERIF_REPO=wt, VERIF_SEED=seed, VERIF_TIER=tier)
        r = subprocess.run([os.path.join(os.path.dirname(os.path.dirname(os.path.abspath(__file__))), "check"), p, "--tier", tier],
                           env=env, capture_output=True, text=True)
        caught = r.returncode == 1 and "VIOLATION property=" + p in r.stdout
        print("%s %s on %s (exit %d)" % ("CAUGHT" if caught else "MISSED", p, os.path.basename(patch), r.returncode))
        lines = [l for l in r.stdout.splitlines() if l.startswith(("VIOLATION", "  mechanism", "INCONCLUSIVE", "KNOWN", p))]
        print("\n".join("    " + l[:300] for l in lines[:8]))
        if not caught:
            rc = 1
finally:
    if "--keep" not in opts:
        subprocess.run(["git", "-C", "/repo", "worktree", "remove", "--force", wt])
sys.exit(rc)
