#!/venv/bin/python
"""Run the checks against every confirmed seeded change and record the outcome in seeded/<name>/meta.json (caught_by).

usage: seedsweep.py [NAME ...] [--also Cxx,Cyy] [--seeds 1,2]
Each change is applied to a scratch worktree of /repo HEAD (tools/mutcheck.py); nothing is applied to /repo itself.
"""
import json, os, re, subprocess, sys, time
V = os.path.dirname(os.path.dirname(os.path.abspath(__file__)))
args = [a for a in sys.argv[1:] if not a.startswith("--")]
opt = lambda n, d: (sys.argv[sys.argv.index(n) + 1] if n in sys.argv else d)
also = [x for x in opt("--also", "").split(",") if x]
seeds = opt("--seeds", "1,2").split(",")
args = [a for a in args if a not in (opt("--also", None), opt("--seeds", None))]
names = args or sorted(os.listdir(os.path.join(V, "seeded")))
EXTRA = {"C02-A": ["C04"], "C02-B": ["C04"]}
for name in names:
    d = os.path.join(V, "seeded", name)
    mp = os.path.join(d, "meta.json")
    if not os.path.exists(mp):
        continue
    meta = json.load(open(mp))
    prop = meta["property"]
    res = []
    for chk in [prop] + EXTRA.get(name, []) + also:
        for s in seeds:
            t0 = time.time()
            r = subprocess.run([os.path.join(V, "tools", "mutcheck.py"), os.path.join(d, "patch.diff"), chk, "--seed", s], capture_output=True, text=True)
            out = r.stdout + r.stderr
            if "patch does not apply" in out:
                res.append({"check": chk, "result": "PATCH DOES NOT APPLY"}); break
            caught = ("CAUGHT " + chk) in out
            mechs = sorted(set(re.findall(r"mechanism: (\S+)", out)))
            res.append({"check": chk, "tier": "quick", "seed": int(s), "result": "caught" if caught else "missed", "mechanisms": mechs[:4], "seconds": int(time.time() - t0)})
            print(name, chk, "seed", s, "CAUGHT" if caught else "MISSED", mechs[:3], flush=True)
            if caught:
                break
    meta["caught_by"] = res
    json.dump(meta, open(mp, "w"), indent=1)
