#!/venv/bin/python
"""Markdown table of the seeded changes and which check catches them (from seeded/*/meta.json written by tools/seedsweep.py)."""
import json, os, re
V = os.path.dirname(os.path.dirname(os.path.abspath(__file__)))
st = json.load(open(os.path.join(V, "seeded", "strengthening.json")))
print("| change | what it breaks (one line) | caught by (quick tier) | added to the checks because of it |")
print("|---|---|---|---|")
for name in sorted(os.listdir(os.path.join(V, "seeded"))):
    mp = os.path.join(V, "seeded", name, "meta.json")
    if not os.path.exists(mp):
        continue
    m = json.load(open(mp))
    notes = open(os.path.join(V, "seeded", name, "NOTES.md")).read() if os.path.exists(os.path.join(V, "seeded", name, "NOTES.md")) else ""
    L = name[-1]
    L0 = {"C": "A", "D": "B"}.get(L, L)
    head = [l for l in notes.splitlines() if l.startswith("## ") and re.search(r"\b(Change\s+)?%s\b" % L0, l[:14])]
    what = (head[0][3:] if head else "").strip()
    what = re.sub(r"\(?patch_[AB]\.diff[^)]*\)?|\(demo_[AB]\.py\)|,?\s*demo_[AB]\.py", "", what).strip(" -,(")
    cb = m.get("caught_by")
    if isinstance(cb, list):
        c = "; ".join("%s seed %s: %s%s" % (x["check"], x.get("seed", "-"), x["result"], (" (" + ", ".join(x.get("mechanisms", [])[:2]) + ")") if x.get("mechanisms") else "") for x in cb if x["result"] == "caught") or \
            "MISSED by " + ", ".join(sorted({x["check"] for x in cb}))
    else:
        c = str(cb)
    print("| %s | %s | %s | %s |" % (name, what[:160].replace("|", "/"), c, st.get(name, "")))
