#!/bin/bash
# usage: tools/sweep.sh "C08 C09 ..." "1 2 3" [tier]   -- runs each check for each seed, prints one summary line per run
cd "$(dirname "$0")/.."
tier=${3:-quick}
for c in $1; do for s in $2; do
  out=$(VERIF_SEED=$s ./check $c --tier $tier 2>&1); rc=$?
  echo "SWEEP $c seed=$s tier=$tier exit=$rc :: $(echo "$out" | grep -E "^$c tier" | tail -1)"
  if [ $rc -ne 0 ]; then echo "$out" | grep -E "VIOLATION|mechanism|INCONCLUSIVE|detail|note" | cut -c1-600 | head -12; fi
done; done
