#!/venv/bin/python
import os, subprocess
V = os.path.dirname(os.path.dirname(os.path.abspath(__file__)))
t = subprocess.check_output([os.path.join(V, "tools", "seedtable.py")], text=True)
p = os.path.join(V, "DESIGN.md"); s = open(p).read()
a = s.index("<!-- SEEDTABLE BEGIN -->") + len("<!-- SEEDTABLE BEGIN -->"); b = s.index("<!-- SEEDTABLE END -->")
open(p, "w").write(s[:a] + "\n" + t + s[b:])
