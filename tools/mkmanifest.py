#!/venv/bin/python
"""Regenerate MANIFEST.json from the check modules present (their LEVEL/LEVEL_TEXT/LEVEL_NOTE/TECHNIQUE attributes)."""
import glob, importlib, json, os, sys
HERE = os.path.dirname(os.path.dirname(os.path.abspath(__file__)))
sys.path.insert(0, HERE)
props = [json.loads(l)["id"] for l in open(os.path.join(HERE, "properties.jsonl"))]
NA = json.load(open(os.path.join(HERE, "tools", "not_applicable.json")))
checks = []; claimed = set()
for f in sorted(glob.glob(os.path.join(HERE, "checks", "c[0-9]*.py"))):
    m = importlib.import_module("checks." + os.path.basename(f)[:-3])
    if getattr(m, "DISABLED", False):
        continue
    claimed.add(m.ID)
    checks.append({
        "property_id": m.ID,
        "quick_cmd": "./check %s --tier quick" % m.ID,
        "thorough_cmd": "./check %s --tier thorough" % m.ID,
        "evidence_file": "/verif/evidence/%s.json" % m.ID,
        "replay_cmd_template": "./check %s --replay {path}" % m.ID,
        "engine": "bobmon",
        "level_claimed": {"category": m.LEVEL, "text": m.LEVEL_TEXT, "design_ref": "DESIGN.md section 4, " + m.ID},
        "level_note": m.LEVEL_NOTE,
        "technique": m.TECHNIQUE,
    })
man = {
    "version": 1,
    "setup_cmd": "/venv/bin/python -m compileall -q lib checks harness tools && ./check --help >/dev/null",
    "hooks": {
        "guard": "BOB_VERIF (harness side only: all monitors are installed by /verif/harness/bobx.py and the in-process workers at the interpreter/OS boundary; /repo carries no hook code)",
        "enable": "checks run /venv/bin/python /verif/harness/bobx.py (real bob entry point of $VERIF_REPO, default /repo, plus audit-hook monitors selected by VERIF_* variables) or import bob.* from /repo/pym in worker processes; python needs no build, the sandbox helper is compiled from /repo/src on each C13 run",
        "baseline_off_cmd": "/verif/tools/baseline.py /repo",
        "source_commits": [],
        "add_only": True,
    },
    "engines": [{"name": "bobmon", "path": "/verif/check", "serves_properties": sorted(claimed),
                 "kind_free_text": "runtime monitoring: seeded workload generators drive the real code; differential, reference-model and history oracles; OS-boundary fault injection (audit hooks, kill-at-N)"}],
    "checks": checks,
    "not_applicable": [{"property_id": p, "reason": NA.get(p, "check not built yet (work in progress in this session); no verdict is claimed")} for p in props if p not in claimed],
    "notes": "Exit codes of ./check: 0 held on everything explored, 1 violation (VIOLATION line), 2 inconclusive (a deciding monitor observed too little). Known findings are listed in /verif/known_findings.json and printed as KNOWN-FINDING lines. The thorough tier plans far more cases than one sitting can run and works under a wall-clock budget (default 1500 s per check, VERIF_BUDGET_S=<seconds> or 0 for no limit): dedicated cases first, the kinds of cases interleaved; cases not started when the budget ends are reported in the evidence (planned_cases, cases_not_started_when_time_budget_ended), never counted as held.",
}
json.dump(man, open(os.path.join(HERE, "MANIFEST.json"), "w"), indent=1)
print("claimed:", sorted(claimed))
