#!/venv/bin/python
"""Run the pinned test suite of a Bob tree and compare with /root/.vp/BASELINE.json.

usage: baseline.py [TREE]     (default /repo)
Exit 0 iff every test of BASELINE.stable_pass passed.  Uses pytest-xdist (-n 8) for speed.
"""
import json, os, subprocess, sys, tempfile, xml.etree.ElementTree as ET

def main():
    tree = os.path.abspath(sys.argv[1]) if len(sys.argv) > 1 else "/repo"
    base = json.load(open("/root/.vp/BASELINE.json"))
    want = set(base["stable_pass"])
    fd, xml = tempfile.mkstemp(suffix=".xml"); os.close(fd)
    env = dict(os.environ)
    env["PYTHONPATH"] = os.path.join(tree, "pym")
    for k in [k for k in env if k.startswith(("VERIF_", "BOB_VERIF"))]:
        del env[k]
    cmd = ["/venv/bin/python", "-m", "pytest", "-q", "-p", "no:cacheprovider", "--timeout=900",
           "--continue-on-collection-errors", "-n", os.environ.get("BASELINE_JOBS", "8"), "--junitxml=" + xml]
    r = subprocess.run(cmd, cwd=tree, env=env, capture_output=True, text=True)
    passed = set()
    for tc in ET.parse(xml).getroot().iter("testcase"):
        if not any(c.tag in ("failure", "error", "skipped") for c in tc):
            passed.add(tc.get("classname") + "::" + tc.get("name"))
    os.unlink(xml)
    missing = sorted(want - passed)
    print("baseline: %d/%d stable tests passed in %s" % (len(want & passed), len(want), tree))
    for m in missing[:40]:
        print("  NOT PASSED:", m)
    if missing:
        print(r.stdout[-3000:])
    return 1 if missing else 0

if __name__ == "__main__":
    sys.exit(main())
