#!/venv/bin/python
"""Confirm a seeded change delivered by a sub-agent and archive it under /verif/seeded/<name>/.

usage: confirm_seed.py PROP SEEDDIR LETTER [PATCHFILE]
  SEEDDIR holds patch_<L>.diff, demo_<L>.py, NOTES.md.  PATCHFILE overrides the patch (adapted to /repo HEAD).
Confirms in a scratch worktree of /repo HEAD: patch applies, pinned tests still pass (tools/baseline.py),
demo fails on the patched tree and passes on /repo.
"""
import json, os, shutil, subprocess, sys, tempfile, time
prop, seeddir, L = sys.argv[1:4]
patch = sys.argv[4] if len(sys.argv) > 4 else os.path.join(seeddir, "patch_%s.diff" % L)
demo = os.path.join(seeddir, "demo_%s.py" % L)
name = "%s-%s" % (prop, L)
dest = os.path.join("/verif/seeded", name)
os.makedirs(dest, exist_ok=True)
wt = tempfile.mkdtemp(prefix="confirm-", dir="/tmp/wt"); os.rmdir(wt)
subprocess.run(["git", "-C", "/repo", "worktree", "add", "-q", "--detach", wt, "HEAD"], check=True)
ran = []
ok = True
try:
    r = subprocess.run(["git", "-C", wt, "apply", os.path.abspath(patch)], capture_output=True, text=True)
    ran.append("git apply patch.diff (on /repo HEAD %s): rc=%d" % (subprocess.check_output(["git", "-C", "/repo", "rev-parse", "--short", "HEAD"], text=True).strip(), r.returncode))
    if r.returncode:
        print(name, "PATCH DOES NOT APPLY", r.stderr); sys.exit(2)
    diff = subprocess.check_output(["git", "-C", wt, "diff"], text=True)
    open(os.path.join(dest, "patch.diff"), "w").write(diff)
    b = subprocess.run(["/verif/tools/baseline.py", wt], capture_output=True, text=True)
    ran.append("tools/baseline.py <patched tree>: rc=%d (%s)" % (b.returncode, b.stdout.strip().splitlines()[0] if b.stdout.strip() else ""))
    ok &= b.returncode == 0
    d1 = subprocess.run(["timeout", "600", "/venv/bin/python", demo, wt], capture_output=True, text=True)
    ran.append("demo.py <patched tree>: rc=%d" % d1.returncode)
    ok &= d1.returncode != 0
    d0 = subprocess.run(["timeout", "600", "/venv/bin/python", demo, "/repo"], capture_output=True, text=True)
    ran.append("demo.py /repo: rc=%d" % d0.returncode)
    ok &= d0.returncode == 0
    shutil.copy(demo, os.path.join(dest, "demo.py"))
    notes = open(os.path.join(seeddir, "NOTES.md")).read() if os.path.exists(os.path.join(seeddir, "NOTES.md")) else ""
    open(os.path.join(dest, "NOTES.md"), "w").write(notes)
    meta = {"name": name, "property": prop, "confirmed": ok, "what_i_ran": ran,
            "needs_to_manifest": "see NOTES.md (section for change %s)" % L,
            "demo_output_on_patched_tree": (d1.stdout + d1.stderr)[-1500:],
            "caught_by": "TO BE FILLED", "confirmed_at": time.strftime("%Y-%m-%d %H:%M")}
    json.dump(meta, open(os.path.join(dest, "meta.json"), "w"), indent=1)
    print(name, "CONFIRMED" if ok else "NOT CONFIRMED", ran)
finally:
    subprocess.run(["git", "-C", "/repo", "worktree", "remove", "--force", wt])
