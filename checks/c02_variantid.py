"""C02 Variant-Id separates exactly what a step executes and consumes.

For every step of a generated project and of its single-edit neighbours a descriptor D is assembled from what is
*executed and consumed* as the public API reports it - normalised setup+main script (provenance lines removed, include
content is embedded by Bob itself), tools in tool-name order (provider step id, path, libs), strong variables with values
(strong/weak split from the generator's ground truth), ordered valid argument ids, and for checkout steps the symbolic
SCM facts the documentation declares identity relevant - never from the digest code.  Over all steps of a case the maps
id -> D and D -> id must be functions (per step kind); an edit that changes D must change the id, reverting restores it.
"""
import copy, json, os, random, re, shutil
from lib import common, projgen, edits, bobapi
from lib.common import result, violation

ID = "C02"
LEVEL = "exploration"
BATCH = 5
CASE_TIMEOUT = 900
MIN_NONTRIVIAL = 100
REQUIRED_COUNTERS = ["projects_evaluated", "steps_described", "distinct_descriptors", "neighbour_edits_changing_some_descriptor", "scm_steps"]
RULE = ("per case one generated project (classes with Setup/Script fragments, multiPackage, tools with path/libs, weak/strong variables, "
        "includes, import/git/url/svn/cvs SCM specs incl. names with spaces) plus ~10 single-edit neighbours (script, class script, variable "
        "value, variable lists, tool path/libs/environment, dependency, provided variable, SCM attribute edits) and the reverted original; all "
        "steps go into one pair of maps. distinct_nontrivial = number of distinct descriptors seen (each is a distinct step variant).")
ASSUMPTIONS = ["tool and argument steps are represented by their Variant-Ids inside D (sound by induction because the maps are checked over all steps)",
               "strong/weak classification of variables comes from the generator (recipe + inherited classes, carry-forward checkout->build->package)",
               "identity relevant SCM facts as documented: import url+dir; git commit+dir or url(user stripped)+ref+dir (+submodules); url strongest digest or url, dir/fileName, extract, stripComponents, fileMode; svn url[@rev]+dir; cvs root, rev, module, dir"]


def plan(tier, seed):
    n = 160 if tier == "quick" else 6000
    return [{"seed": common.subseed(seed, "c02", i), "neighbours": 10 if tier == "quick" else 16} for i in range(n)]


def gen_scm(rnd):
    kind = rnd.choice(["git", "git", "url", "svn", "cvs", "import"])
    d = rnd.choice([".", "sub", "sub dir", "a/b", "x"])
    if kind == "git":
        s = {"scm": "git", "url": rnd.choice(["https://user@host.example/repo.git", "https://host.example/repo.git", "git@host.example:repo.git", "/abs/repo", "https://host.example/other.git"]), "dir": d}
        k = rnd.random()
        if k < 0.3: s["commit"] = rnd.choice(["a" * 40, "b" * 40])
        elif k < 0.6: s["tag"] = rnd.choice(["v1", "v2", "v1 x"])
        elif k < 0.9: s["branch"] = rnd.choice(["main", "dev", "v1"])
        if rnd.random() < 0.2: s["submodules"] = rnd.choice([True, ["m1"], ["m1", "m2"]])
        if rnd.random() < 0.2: s["shallow"] = 1          # not identity relevant
        return s
    if kind == "url":
        s = {"scm": "url", "url": rnd.choice(["https://host.example/f.tgz", "https://u@host.example/f.tgz", "https://host.example/g.tgz", "https://host.example/dl/f.tgz"]), "dir": d}
        if rnd.random() < 0.5: s[rnd.choice(["digestSHA1"])] = rnd.choice(["c" * 40, "d" * 40])
        if rnd.random() < 0.3: s["digestSHA256"] = rnd.choice(["e" * 64, "f" * 64])
        if rnd.random() < 0.3: s["extract"] = rnd.choice([False, True, "tar"])
        if rnd.random() < 0.2: s["stripComponents"] = rnd.choice([1, 2])
        if rnd.random() < 0.2: s["fileName"] = rnd.choice(["f.tgz", "renamed.tgz"])
        return s
    if kind == "svn":
        s = {"scm": "svn", "url": rnd.choice(["https://svn.example/trunk", "https://svn.example/branches/x"]), "dir": d}
        if rnd.random() < 0.5: s["revision"] = rnd.choice([1, 12])
        return s
    if kind == "cvs":
        s = {"scm": "cvs", "cvsroot": rnd.choice([":pserver:anon@cvs.example:/root", "/var/cvs"]), "module": rnd.choice(["mod", "mod2"]), "dir": d}
        if rnd.random() < 0.5: s["rev"] = rnd.choice(["HEAD", "R1"])
        return s
    return {"scm": "import", "url": rnd.choice(["src/imp1", "src/imp2", "src/imp 3"]), "dir": d, "prune": rnd.random() < 0.5}


def base_model(rnd):
    feats = rnd.sample(["classes", "multi", "tools", "pdeps", "if", "weak", "menv", "fwd", "checkoutscript", "includes"], rnd.randrange(4, 10)) + ["tools", "weak", "classes"]
    m = projgen.gen_model(rnd, rnd.randrange(5, 10), feats)
    for n, r in m["recipes"].items():
        if rnd.random() < 0.6:
            r["scm"] = gen_scm(rnd)
            if r["scm"]["scm"] == "import":
                m.setdefault("files", {})[r["scm"]["url"] + "/file.txt"] = "x"
        # values with blanks / characters that could make naive concatenations ambiguous
        if rnd.random() < 0.3 and r["vars"]["build"]:
            r.setdefault("env", {})[r["vars"]["build"][0]] = rnd.choice(["a b", "a", "b", "a  b", " a", "ab", "a=b", ""])
    # twins: identical scripts that do not mention their variables, consuming different (name, value) pairs whose naive
    # concatenation coincides - only a length-prefixed / separated encoding tells them apart
    k0 = lambda: {k: [] for k in projgen.KINDS}
    pairs = rnd.choice([[({"V": "Ax"}, ["V"]), ({"VA": "x"}, ["VA"])], [({"P": "a", "Q": "b"}, ["P", "Q"]), ({"P": "aQb"}, ["P"])],
                        [({"K": "1"}, ["K"]), ({"K": "1"}, [])]])
    root = next(iter(m["recipes"]))
    for i, (env, vs) in enumerate(pairs):
        n = "twin%d" % i
        m["recipes"][n] = {"env": env, "vars": {"checkout": [], "build": vs, "package": []}, "weak": k0(), "tok": {"checkout": None, "build": None, "package": None},
                           "raw": {"buildScript": "echo twin > out.txt\n", "packageScript": "cp $1/out.txt .\n"}, "tools": k0(), "toolsWeak": k0(), "depends": []}
        m["recipes"][root]["depends"].append({"name": n})
    return m


def strong_vars(model, recipe_name, kind):
    """generator ground truth: strong variables visible in the step (carry forward from earlier kinds; weak unless declared strong somewhere)"""
    flat = projgen.reachable(model)
    r = flat.get(recipe_name)
    if r is None:
        return None
    layers = []
    def collect(rr):
        for c in rr.get("inherit", []):
            collect(model["classes"][c])
        layers.append(rr)
    collect(r)
    if recipe_name in flat and recipe_name not in model["recipes"]:
        # multiPackage sub recipe: parent recipe is an anonymous base class
        base, suffix = recipe_name.rsplit("-", 1)
        layers.append(model["recipes"][base]["multi"][suffix])
    kinds = projgen.KINDS[:projgen.KINDS.index(kind) + 1]
    strong, weak = set(), set()
    for rr in layers:
        for k in kinds:
            strong |= set((rr.get("vars") or {}).get(k, []))
            weak |= set((rr.get("weak") or {}).get(k, []))
    return strong, weak - strong


def normalise_script(s):
    return "\n".join(l for l in (s or "").split("\n") if not l.startswith("_BOB_SOURCES["))


def strip_user(url):
    return re.sub(r"^(\w+://)[^/@]+@", r"\1", url) if "://" in url else re.sub(r"^[^/@:]+@", "", url)


def scm_descr(p):
    k = p["scm"]
    d = p.get("dir", ".")
    if k == "import":
        return ("import", p["url"], d)
    if k == "git":
        if p.get("commit"):
            ref = ("commit", p["commit"], d)
        else:
            url = strip_user(p["url"])
            if p.get("tag"): ref = ("ref", url, "refs/tags/" + p["tag"], d)
            else: ref = ("ref", url, "refs/heads/" + p.get("branch", "master"), d)
        sub = p.get("submodules", False)
        return ("git",) + ref + ((tuple(sub) if isinstance(sub, list) else bool(sub)), bool(p.get("recurseSubmodules", False)) if sub else False)
    if k == "url":
        ident = p.get("digestSHA512") or p.get("digestSHA256") or p.get("digestSHA1") or strip_user(p["url"])
        return ("url", ident, d, p.get("fileName"), str(p.get("extract", "auto")), p.get("stripComponents", 0), p.get("fileMode"))
    if k == "svn":
        return ("svn", p["url"], p.get("revision"), d)
    if k == "cvs":
        return ("cvs", p["cvsroot"], p.get("rev"), p["module"], d)
    return (k, json.dumps(p, sort_keys=True, default=str))


def describe(step, model, pkg):
    kind = {"src": "checkout", "build": "build", "dist": "package"}[step.getLabel()]
    sv = strong_vars(model, pkg.getRecipe().getPackageName() if hasattr(pkg.getRecipe(), "getPackageName") else pkg.getName(), kind)
    env = step.getEnv()
    if sv is None:
        return None
    strong, weak = sv
    d = {
        "script": normalise_script(step.getSetupScript()) + "\n###\n" + normalise_script(step.getMainScript()),
        "tools": [(n, t.getStep().getVariantId().hex(), t.getPath(), list(t.getLibs())) for n, t in sorted(step.getTools().items())],
        "env": sorted((k, v) for k, v in env.items() if k not in weak),
        "args": [a.getVariantId().hex() for a in step.getArguments() if a.isValid()],
    }
    if kind == "checkout":
        d["scms"] = [scm_descr(s.getProperties(False)) for s in step.getScmList()]
        d["det"] = None
    return kind, json.dumps(d, sort_keys=True, default=str)


def evaluate(proj, model):
    out = []
    with bobapi.project(proj, defines=model.get("defines")) as (rs, ps):
        seen = set()
        def walk(p):
            k = p._getId()
            if k in seen:
                return
            seen.add(k)
            for s in (p.getCheckoutStep(), p.getBuildStep(), p.getPackageStep()):
                if s.isValid():
                    dd = describe(s, model, p)
                    if dd is not None:
                        out.append((dd[0], s.getVariantId().hex(), dd[1], "/".join(p.getStack()) + ":" + s.getLabel()))
            for name, (c, d) in sorted(bobapi.children(p).items()):
                walk(c)
        walk(ps.getRootPackage())
    return out


def scm_edit(model, rnd):
    cands = [n for n, r in model["recipes"].items() if r.get("scm")]
    if not cands:
        return None
    n = rnd.choice(cands); s = model["recipes"][n]["scm"]
    k = s["scm"]
    if k == "git":
        ch = rnd.choice(["url", "dir", "ref", "user", "shallow"])
        if ch == "url": s["url"] = "https://host.example/changed.git"
        elif ch == "dir": s["dir"] = "moved" if s.get("dir") != "moved" else "."
        elif ch == "ref":
            for key in ("commit", "tag", "branch"): s.pop(key, None)
            s[rnd.choice(["tag", "branch"])] = "v1"
        elif ch == "user": s["url"] = "https://someoneelse@host.example/repo.git"
        else: s["shallow"] = 5
        return ("scm-git-" + ch, n)
    if k == "url":
        ch = rnd.choice(["digest", "url", "extract", "dir"])
        if ch == "digest": s["digestSHA1"] = "9" * 40
        elif ch == "url": s["url"] = "https://mirror.example/f.tgz"
        elif ch == "extract": s["extract"] = not bool(s.get("extract", True))
        else: s["dir"] = "moved"
        return ("scm-url-" + ch, n)
    if k == "svn":
        s["revision"] = 99; return ("scm-svn-rev", n)
    if k == "cvs":
        s["module"] = "othermod"; return ("scm-cvs-module", n)
    s["dir"] = "moved"; return ("scm-import-dir", n)


def run_case(case):
    common.repo_path_setup()
    from bob.errors import BobError
    rnd = random.Random(case["seed"])
    counters = dict.fromkeys(REQUIRED_COUNTERS, 0)
    viol = []
    model = bobapi.gen_valid_model(rnd, lambda: base_model(rnd))
    if model is None:
        return result("trivial", counters=counters, note="no valid model")
    id2d, d2id = {}, {}
    where = {}
    with common.scratch("c02", root="/dev/shm/bobverif" if os.path.isdir("/dev/shm") else None) as base:
        def run(label, m):
            d = os.path.join(base, "p%d" % counters["projects_evaluated"])
            projgen.write_project(d, m)
            try:
                steps = evaluate(d, m)
            except BobError:
                return None
            finally:
                shutil.rmtree(d, ignore_errors=True)
            counters["projects_evaluated"] += 1
            for kind, vid, descr, loc in steps:
                counters["steps_described"] += 1
                if descr.find('"scms": [') >= 0 and '"scms": []' not in descr:
                    counters["scm_steps"] += 1
                key = (kind, vid)
                if key in id2d and id2d[key] != descr:
                    viol.append(violation("same-variant-id-different-descriptor", {"kind": kind, "where": [where[key], (label, loc)], "difference": diff(id2d[key], descr)}))
                id2d.setdefault(key, descr)
                dk = (kind, descr)
                if dk in d2id and d2id[dk] != vid:
                    viol.append(violation("same-descriptor-different-variant-id", {"kind": kind, "where": [where[(kind, d2id[dk])], (label, loc)]}))
                d2id.setdefault(dk, vid)
                where.setdefault(key, (label, loc))
            return {loc: (vid, descr) for kind, vid, descr, loc in steps}
        orig = run("original", model)
        if orig is None:
            return result("trivial", counters=counters, note="original model refused")
        for i in range(case["neighbours"]):
            m2 = copy.deepcopy(model)
            ed = scm_edit(m2, rnd) if rnd.random() < 0.25 else None
            if ed is None:
                ed = edits.apply_edit(m2, rnd, ["tok", "class_tok", "env_val", "env_samelen", "dep_env", "strong_weak", "undeclare", "declare", "dep_remove", "dep_add", "pvar",
                                                "tool_tok", "tool_path", "tool_path", "define", "menv", "weak_env"])
            nb = run(str(ed), m2)
            if nb is None:
                continue
            changed = [loc for loc in orig if loc in nb and orig[loc][1] != nb[loc][1]]
            if changed:
                counters["neighbour_edits_changing_some_descriptor"] += 1
            for loc in changed:
                if orig[loc][0] == nb[loc][0]:
                    viol.append(violation("descriptor-changed-but-variant-id-did-not", {"edit": str(ed), "step": loc, "difference": diff(orig[loc][1], nb[loc][1])}))
                    break
            if len(viol) > 6:
                break
        again = run("original-again", model)
        if again is not None and {k: v[0] for k, v in again.items()} != {k: v[0] for k, v in orig.items()}:
            viol.append(violation("ids-not-restored-after-revert", {}))
    counters["distinct_descriptors"] = len(d2id)
    sigs = [common.sha(k[0], k[1])[:16] for k in d2id]
    return result("held", sigs=sigs, counters=counters, violations=viol[:4],
                  sample={"steps": len(id2d), "example_descriptor": json.loads(next(iter(id2d.values()))) if id2d else None})


def diff(a, b):
    try:
        x, y = json.loads(a), json.loads(b)
        out = {}
        for k in x:
            if x[k] != y.get(k):
                out[k] = [str(x[k])[:300], str(y.get(k))[:300]]
        return out
    except Exception:
        return None


LEVEL_TEXT = ("Exploration: every step of every generated project and of ~10 single-edit neighbours is described independently of the digest "
              "code and entered into global id<->descriptor maps that must stay functions in both directions; edits that change a descriptor must "
              "change the id and the reverted project must reproduce the ids.")
LEVEL_NOTE = "The descriptor reads scripts, tools, environment, arguments and SCM properties through the public Step API; strong/weak ground truth comes from the generator."
TECHNIQUE = "runtime bijection monitor between Variant-Ids and an independently assembled consumption descriptor over projects and their edit neighbourhoods"
