"""C09 Archive uploads are atomic and never overwrite  (fault enumeration + schedule exploration).

Case kinds
  race          P uploaders with distinct payloads, M cache-mirroring downloaders and R readers work on the same
                build-ids of one LocalArchive directory; delay-at-op widens the race windows; an offline checker judges
                the merged observation history.
  crash-upload  one upload is traced, then replayed with SIGKILL / injected OSError at EVERY file-system operation and at
                sampled write() calls of the upload path.
  crash-mirror  the same for a mirrored (cache) download.
Reader-side validity is independent of Bob: full gzip decode incl. CRC/length trailer, tar walk, payload tag and blob.
"""
import errno, gzip, hashlib, io, json, os, random, shutil, signal, sys, tarfile, time

if __name__ == "__main__":
    sys.path.insert(0, os.path.dirname(os.path.dirname(os.path.abspath(__file__))))
from lib import common
from lib.common import result, violation

ID = "C09"
LEVEL = "fault_enumeration"
BATCH = 1
CASE_TIMEOUT = 900
JOBS = 6
MIN_NONTRIVIAL = 60
REQUIRED_COUNTERS = ["reader_observations", "rounds_with_competition", "kill_points", "fault_points", "mirror_commits", "mirror_aborts", "preexisting_checked"]
RULE = ("race cases: per round 4 uploaders (distinct tagged payloads, sizes swept over 512 B / 10 KiB block boundaries), 2 mirroring "
        "downloaders and 3 polling readers on one build-id, seeded 0-3 ms delays between the uploaders' fs operations; crash cases: "
        "every fs operation of a traced upload / mirrored download is a kill point and a fault point (ENOSPC, EIO, EACCES), plus sampled "
        "write() faults. distinct_nontrivial = distinct (round, first-publisher, loser set) outcomes + distinct (payload shape, operation "
        "index, fault kind) points.")
ASSUMPTIONS = ["only the `file` archive backend (the property says file archive)", "kill = process crash: page cache survives, no torn sectors",
               "an upload that reports an error *after* its artifact was already published completely (fault injected into the clean-up unlink) is not counted against 'a failed upload leaves nothing'; the artifact must still be complete and valid",
               "several uploaders may report ok for one build-id (a lost link race is silent by design); only the published content is judged"]

SIZES = [0, 1, 511, 512, 513, 10239, 10240, 10241, 32768, 70000]


def plan(tier, seed):
    cases = []
    nrace = 8 if tier == "quick" else 200
    for i in range(nrace):
        cases.append({"kind": "race", "seed": common.subseed(seed, "c09r", i), "rounds": 30 if tier == "quick" else 60})
    nshape = 3 if tier == "quick" else 12
    for i in range(nshape):
        cases.append({"kind": "crash-upload", "seed": common.subseed(seed, "c09u", i), "shape": i})
        cases.append({"kind": "crash-mirror", "seed": common.subseed(seed, "c09m", i), "shape": i})
    return cases


# ------------------------------------------------------------------ payloads and validity (independent of Bob)

def blob_for(tag):
    size = int(tag.rsplit("-s", 1)[1])
    h = hashlib.sha256(tag.encode()).digest()
    return (h * (size // len(h) + 1))[:size]


def make_payload(root, tag, extra_files=0):
    ws = os.path.join(root, "workspace")
    shutil.rmtree(root, ignore_errors=True)
    os.makedirs(ws)
    open(os.path.join(ws, "tag"), "w").write(tag)
    open(os.path.join(ws, "blob"), "wb").write(blob_for(tag))
    for i in range(extra_files):
        os.makedirs(os.path.join(ws, "d%d" % i), exist_ok=True)
        open(os.path.join(ws, "d%d" % i, "f"), "w").write("x" * i)
    audit = os.path.join(root, "audit.json.gz")
    open(audit, "wb").write(gzip.compress(json.dumps({"artifact": {"tag": tag}, "references": []}).encode()))
    return audit, ws


def art_path(arch, bid):
    h = bid.hex() + "-1"
    return os.path.join(arch, h[0:2], h[2:4], h[4:] + ".tgz")


def validate_bytes(data):
    """returns (tag, None) or (None, reason)"""
    try:
        d = gzip.GzipFile(fileobj=io.BytesIO(data))
        raw = d.read()              # raises on bad CRC / truncated stream / missing trailer
        with tarfile.open(fileobj=io.BytesIO(raw)) as t:
            names = t.getnames()
            if "meta/audit.json.gz" not in names:
                return None, "no audit member"
            tag = t.extractfile("content/tag").read().decode()
            blob = t.extractfile("content/blob").read()
            gzip.decompress(t.extractfile("meta/audit.json.gz").read())
        if blob != blob_for(tag):
            return None, "blob does not match tag " + tag
        return tag, None
    except Exception as e:
        return None, "%s: %s" % (type(e).__name__, str(e)[:100])


def validate_file(path):
    try:
        with open(path, "rb") as f:
            st = os.fstat(f.fileno())
            data = f.read()
    except FileNotFoundError:
        return None
    tag, why = validate_bytes(data)
    return {"tag": tag, "why": why, "ino": st.st_ino, "size": len(data)}


def bid_for(r):
    return hashlib.sha1(b"round%d" % r).digest()


# ------------------------------------------------------------------ child roles

def _bob():
    sys.path.insert(0, os.path.join(common.REPO, "pym"))
    import bob.archive
    return bob.archive


def install_delay(arch, seed, maxms):
    rnd = random.Random(seed)
    mypid = os.getpid()
    def hook(ev, args):
        if ev in ("open", "os.link", "os.remove", "os.rename", "os.mkdir", "os.chmod") and os.getpid() == mypid:
            a = args[0]
            if isinstance(a, (str, bytes)) and arch in os.fsdecode(a):
                time.sleep(rnd.random() * maxms / 1000.0)
    sys.addaudithook(hook)


def round_kind(seed, r):
    k = common.subseed(seed, "kind", r) % 10
    return "mirror-fail" if k == 0 else "preexisting" if k == 1 else "late-upload" if k == 2 else "race"


def wait_until(t):
    while True:
        d = t - time.time()
        if d <= 0:
            return
        time.sleep(min(d, 0.002))


SLOT = 0.06


def role_uploader(base, wid, rounds, seed, T0):
    ba = _bob()
    arch = os.path.join(base, "arch")
    install_delay(arch, seed * 31 + wid, 3.0)
    rnd = random.Random(seed * 17 + wid)
    a = ba.LocalArchive({"path": arch, "flags": ["download", "upload"]})
    a.wantUploadLocal(True)
    log = []
    for r in range(rounds):
        kind = round_kind(seed, r)
        if kind == "mirror-fail":
            continue
        tag = "u%d-r%d-s%d" % (wid, r, rnd.choice(SIZES))
        audit, ws = make_payload(os.path.join(base, "u%d" % wid, "dist"), tag)
        t_slot = T0 + SLOT * r + (SLOT * 0.6 if (kind == "late-upload" and wid == 0) else 0)
        wait_until(t_slot + rnd.random() * 0.003)
        t0 = time.monotonic()
        try:
            res = a._uploadPackage(bid_for(r), ".tgz", audit, ws)
            out = ["ret", res[0]]
        except ba.BuildError as e:
            out = ["BuildError", str(e)[:200]]
        except BaseException as e:
            out = ["EXC", "%s: %s" % (type(e).__name__, str(e)[:200])]
        log.append({"r": r, "who": "u%d" % wid, "tag": tag, "out": out, "t0": t0, "t1": time.monotonic()})
    json.dump(log, open(os.path.join(base, "ulog%d.json" % wid), "w"))


def role_mirror(base, mid, rounds, seed, T0):
    ba = _bob()
    arch = os.path.join(base, "arch")
    install_delay(arch, seed * 37 + mid, 2.0)
    rnd = random.Random(seed * 19 + mid)
    src = ba.LocalArchive({"path": os.path.join(base, "src"), "flags": ["download"]})
    src.wantDownloadLocal(True)
    cache = ba.LocalArchive({"path": arch, "flags": ["download", "upload", "cache"]})
    log = []
    for r in range(rounds):
        kind = round_kind(seed, r)
        out_dir = os.path.join(base, "m%d" % mid)
        shutil.rmtree(out_dir, ignore_errors=True); os.makedirs(out_dir)
        wait_until(T0 + SLOT * r + rnd.random() * 0.004)
        t0 = time.monotonic()
        try:
            res = src._downloadPackage(bid_for(r), ".tgz", os.path.join(out_dir, "audit.json.gz"), os.path.join(out_dir, "workspace"),
                                       [cache], os.path.join(out_dir, "workspace"))
            out = ["ret", bool(res[0]), str(res[1])]
        except ba.BuildError as e:
            out = ["BuildError", str(e)[:200]]
        except BaseException as e:
            out = ["EXC", "%s: %s" % (type(e).__name__, str(e)[:200])]
        log.append({"r": r, "who": "m%d" % mid, "out": out, "t0": t0, "t1": time.monotonic()})
    json.dump(log, open(os.path.join(base, "mlog%d.json" % mid), "w"))


def role_reader(base, rid, rounds, T0):
    arch = os.path.join(base, "arch")
    obs = []
    seen = set()
    deadline = T0 + SLOT * rounds + 0.8
    paths = [art_path(arch, bid_for(r)) for r in range(rounds)]
    while time.time() < deadline:
        now = time.time()
        lo = max(0, int((now - T0) / SLOT) - 6)
        for r in range(lo, min(rounds, lo + 8)):
            v = validate_file(paths[r])
            if v is None:
                continue
            key = (r, v["tag"], v["ino"], v["why"])
            if key not in seen:
                seen.add(key)
                obs.append({"r": r, "tag": v["tag"], "why": v["why"], "ino": v["ino"], "size": v["size"], "t": time.monotonic()})
        time.sleep(0.0005)
    json.dump(obs, open(os.path.join(base, "rlog%d.json" % rid), "w"))


# ------------------------------------------------------------------ race case

def build_artifact_bytes(tag, corrupt=None, rnd=None):
    """An artifact as Bob packs it, built with the real TarHelper._pack into memory via a temp dir."""
    raise NotImplementedError


def prepare_sources(base, rounds, seed):
    """src archive: one valid artifact per round (tag src-r<r>), corrupted for mirror-fail rounds; pre-existing artifacts in arch."""
    ba = _bob()
    rnd = random.Random(seed)
    srcdir = os.path.join(base, "src"); arch = os.path.join(base, "arch")
    os.makedirs(srcdir); os.makedirs(arch)
    up = ba.LocalArchive({"path": srcdir, "flags": ["upload", "download"]}); up.wantUploadLocal(True)
    pre = ba.LocalArchive({"path": arch, "flags": ["upload", "download"]}); pre.wantUploadLocal(True)
    info = {}
    for r in range(rounds):
        kind = round_kind(seed, r)
        tag = "src-r%d-s%d" % (r, rnd.choice(SIZES))
        audit, ws = make_payload(os.path.join(base, "prep"), tag)
        res = up._uploadPackage(bid_for(r), ".tgz", audit, ws)
        assert res[0] == "ok", res
        info[r] = {"kind": kind, "src": tag}
        p = art_path(srcdir, bid_for(r))
        if kind == "mirror-fail":
            data = open(p, "rb").read()
            how = rnd.choice(["truncate", "unknown-member"])   # only corruptions the extraction itself must notice (content flips are C08)
            if how == "truncate":
                data = data[:rnd.randrange(1, 64)]      # cut inside the first tar header: no extraction can succeed
            elif how == "flip":
                i = rnd.randrange(10, max(11, len(data) // 2)); data = data[:i] + bytes([data[i] ^ 0x55]) + data[i + 1:]
            else:
                raw = gzip.decompress(data)
                bio = io.BytesIO()
                with tarfile.open(fileobj=io.BytesIO(raw)) as tin, tarfile.open(fileobj=bio, mode="w", format=tarfile.PAX_FORMAT, pax_headers={"bob-archive-vsn": "1"}) as tout:
                    for m in tin.getmembers():
                        tout.addfile(m, tin.extractfile(m) if m.isfile() else None)
                    ti = tarfile.TarInfo("evil/unknown"); ti.size = 3
                    tout.addfile(ti, io.BytesIO(b"abc"))
                data = gzip.compress(bio.getvalue())
            info[r]["corruption"] = how
            os.chmod(p, 0o644)
            open(p, "wb").write(data)
        if kind == "preexisting":
            ptag = "pre-r%d-s%d" % (r, rnd.choice(SIZES))
            audit, ws = make_payload(os.path.join(base, "prep"), ptag)
            res = pre._uploadPackage(bid_for(r), ".tgz", audit, ws)
            assert res[0] == "ok", res
            info[r]["pre"] = ptag
            info[r]["pre_ino"] = os.stat(art_path(arch, bid_for(r))).st_ino
    shutil.rmtree(os.path.join(base, "prep"), ignore_errors=True)
    return info


def run_race(case):
    import subprocess
    counters = dict.fromkeys(REQUIRED_COUNTERS, 0)
    viol = []
    sigs = set()
    rounds, seed = case["rounds"], case["seed"]
    me = os.path.abspath(__file__)
    with common.scratch("c09") as base:
        info = prepare_sources(base, rounds, seed)
        env = common.clean_env()
        T0 = time.time() + 2.5
        procs = []
        for w in range(4):
            procs.append(subprocess.Popen([common.PY, me, "u", base, str(w), str(rounds), str(seed), repr(T0)], env=env, start_new_session=True))
        for m in range(2):
            procs.append(subprocess.Popen([common.PY, me, "m", base, str(m), str(rounds), str(seed), repr(T0)], env=env, start_new_session=True))
        for r in range(3):
            procs.append(subprocess.Popen([common.PY, me, "r", base, str(r), str(rounds), repr(T0)], env=env, start_new_session=True))
        deadline = time.time() + 120 + SLOT * rounds
        for p in procs:
            try:
                p.wait(timeout=max(1, deadline - time.time()))
            except subprocess.TimeoutExpired:
                for q in procs:
                    common.kill_group(q.pid)
                return result("inconclusive", note="race children timed out")
        if any(p.returncode != 0 for p in procs):
            return result("inconclusive", note="a race child failed: %s" % [p.returncode for p in procs])
        ulog = [e for w in range(4) for e in json.load(open(os.path.join(base, "ulog%d.json" % w)))]
        mlog = [e for m in range(2) for e in json.load(open(os.path.join(base, "mlog%d.json" % m)))]
        obs = [e for r in range(3) for e in json.load(open(os.path.join(base, "rlog%d.json" % r)))]
        counters["reader_observations"] = len(obs)
        arch = os.path.join(base, "arch")
        for r in range(rounds):
            inf = info[r]
            kind = inf["kind"]
            ups = [e for e in ulog if e["r"] == r]
            mis = [e for e in mlog if e["r"] == r]
            ob = sorted((e for e in obs if e["r"] == r), key=lambda e: e["t"])
            final = validate_file(art_path(arch, bid_for(r)))
            allowed = {e["tag"] for e in ups} | {inf["src"]} | ({inf["pre"]} if "pre" in inf else set())
            ctx = {"round": r, "kind": kind, "uploaders": [(e["who"], e["out"]) for e in ups], "mirrors": [(e["who"], e["out"]) for e in mis],
                   "observations": [(e["tag"], e["why"], e["ino"]) for e in ob][:6], "final": final}
            for e in ups:
                if e["out"][0] != "ret":
                    viol.append(violation("upload-raised-" + e["out"][0], ctx))
            for e in mis:
                if e["out"][0] == "EXC" and kind == "mirror-fail":
                    # a corrupted source may make the download fail in any way (e.g. CPython's tarfile raises TypeError on a
                    # gzip header cut short); the property only constrains what ends up under the artifact name
                    counters["mirror_failures_by_internal_exception"] = counters.get("mirror_failures_by_internal_exception", 0) + 1
                elif e["out"][0] == "EXC":
                    viol.append(violation("mirrored-download-of-valid-artifact-raised", ctx))
                elif kind != "mirror-fail" and not (e["out"][0] == "ret" and e["out"][1] is True):
                    viol.append(violation("mirrored-download-of-valid-artifact-failed", ctx))
                elif kind == "mirror-fail" and e["out"][0] == "ret" and e["out"][1] is True:
                    viol.append(violation("corrupted-source-download-succeeded", ctx))
            everything = ob + ([dict(final, t=1e18)] if final else [])
            for e in everything:
                if e["tag"] is None:
                    viol.append(violation("reader-saw-incomplete-artifact", dict(ctx, why=e["why"], size=e["size"])))
                elif e["tag"] not in allowed:
                    viol.append(violation("reader-saw-foreign-artifact", dict(ctx, tag=e["tag"])))
            idents = {(e["tag"], e["ino"]) for e in everything if e["tag"] is not None}
            if len(idents) > 1:
                viol.append(violation("artifact-replaced-after-it-was-visible", dict(ctx, identities=sorted(idents))))
            if kind == "mirror-fail":
                counters["mirror_aborts"] += len(mis)
                if final is not None:
                    viol.append(violation("failed-mirror-left-artifact", ctx))
            else:
                counters["mirror_commits"] += len(mis)
                if final is None:
                    viol.append(violation("no-artifact-although-uploads-reported-ok", ctx))
            if kind == "preexisting":
                counters["preexisting_checked"] += 1
                if final is None or final["tag"] != inf["pre"] or final["ino"] != inf["pre_ino"]:
                    viol.append(violation("preexisting-artifact-replaced", ctx))
            if final and final["tag"]:
                owner = next((e for e in ups if e["tag"] == final["tag"]), None)
                if owner is not None and owner["out"] != ["ret", "ok"]:
                    viol.append(violation("published-artifact-of-uploader-that-did-not-report-ok", ctx))
                if kind in ("race", "late-upload"):
                    counters["rounds_with_competition"] += 1
                    winner = final["tag"].split("-")[0]
                    oks = sorted(e["who"] for e in ups if e["out"] == ["ret", "ok"])
                    sigs.add("race|%s|%s|%s" % (kind, winner, ",".join(oks)))
        leftovers = [f for d, _, fs in os.walk(arch) for f in fs if not f.endswith(".tgz")]
        if leftovers:
            viol.append(violation("temporary-file-survived-completed-uploads", {"files": leftovers[:5]}))
    seen = set(); uniq = []
    for v in viol:
        if v["mechanism"] not in seen or len(uniq) < 4:
            uniq.append(v); seen.add(v["mechanism"])
    return result("held", sigs=sorted(sigs), counters=counters, violations=uniq[:6],
                  sample={"kind": "race", "seed": seed, "round0": {"uploaders": [(e["who"], e["tag"], e["out"]) for e in ulog if e["r"] == 0],
                          "observations": [(e["tag"], e["ino"]) for e in obs if e["r"] == 0]}})


# ------------------------------------------------------------------ crash / fault enumeration

FS_EVENTS = ("open", "os.link", "os.remove", "os.rename", "os.mkdir", "os.chmod", "os.rmdir", "os.truncate")


def scenario_child(mode, base, shape, n, err, flags):
    """Runs ONE upload (mode=upload) or mirrored download (mode=mirror) with a kill / fault at the n-th fs event under
    the watched archive directory (n<0: at the |n|-th write() into the temporary upload file). Prints a JSON outcome."""
    ba = _bob()
    watched = os.path.join(base, "arch")
    cnt = {"ev": 0, "wr": 0, "trace": []}
    mypid = os.getpid()
    armed = [True]

    def fire(what):
        if err == "KILL":
            sys.stdout.write(json.dumps({"outcome": "killed", "at": what}) + "\n"); sys.stdout.flush()
            os.kill(mypid, signal.SIGKILL)
        armed[0] = False
        raise OSError(getattr(errno, err), "injected " + err + " at " + what)

    def hook(ev, args):
        if not armed[0] or ev not in FS_EVENTS or os.getpid() != mypid:
            return
        a = args[0]
        if not isinstance(a, (str, bytes)) or watched not in os.fsdecode(a):
            return
        if ev == "open" and (not isinstance(args[1], str) or not any(c in args[1] for c in "wxa+")) and not (isinstance(args[2], int) and args[2] & (os.O_WRONLY | os.O_RDWR | os.O_CREAT)):
            return
        cnt["ev"] += 1
        what = "%s %s" % (ev, os.path.basename(os.fsdecode(a))[:12])
        cnt["trace"].append(what)
        if n > 0 and cnt["ev"] == n:
            fire("#%d %s" % (n, what))
    sys.addaudithook(hook)

    # write faults: wrap the temporary file the uploader writes into (binding in bob.archive, hit-counted)
    real_ntf = ba.NamedTemporaryFile
    class W:
        def __init__(self, f): self.__dict__["f"] = f
        def write(self, data):
            cnt["wr"] += 1
            if n < 0 and cnt["wr"] == -n and armed[0]:
                if err != "KILL":
                    self.f.write(data[:len(data) // 2])
                fire("write#%d" % -n)
            return self.f.write(data)
        def __getattr__(self, k): return getattr(self.f, k)
        def __enter__(self): return self
        def __exit__(self, *a): return self.f.__exit__(*a)
    def ntf(*a, **k):
        return W(real_ntf(*a, **k))
    ba.NamedTemporaryFile = ntf

    tag = "x-r0-s%d" % SIZES[(shape * 3 + 1) % len(SIZES)]
    out = {}
    try:
        if mode == "upload":
            audit, ws = make_payload(os.path.join(base, "pay"), tag, extra_files=shape % 4)
            a = ba.LocalArchive({"path": watched, "flags": ["download", "upload"] + flags})
            a.wantUploadLocal(True)
            res = a._uploadPackage(bid_for(0), ".tgz", audit, ws)
            out = {"outcome": "ret", "res": res[0]}
        else:
            src = ba.LocalArchive({"path": os.path.join(base, "src"), "flags": ["download"]}); src.wantDownloadLocal(True)
            cache = ba.LocalArchive({"path": watched, "flags": ["download", "upload", "cache"] + flags})
            od = os.path.join(base, "dl"); shutil.rmtree(od, ignore_errors=True); os.makedirs(od)
            res = src._downloadPackage(bid_for(0), ".tgz", os.path.join(od, "audit.json.gz"), os.path.join(od, "workspace"), [cache], os.path.join(od, "workspace"))
            out = {"outcome": "ret", "res": [bool(res[0]), str(res[1])]}
            if res[0]:
                t = open(os.path.join(od, "workspace", "tag")).read()
                out["extracted_ok"] = (t == "src-r0-s%d" % SIZES[(shape * 3 + 1) % len(SIZES)])
    except ba.BuildError as e:
        out = {"outcome": "BuildError", "msg": str(e)[:200]}
    except BaseException as e:
        out = {"outcome": "EXC", "msg": "%s: %s" % (type(e).__name__, str(e)[:200])}
    out.update(events=cnt["ev"], writes=cnt["wr"], trace=cnt["trace"], fired=not armed[0])
    print(json.dumps(out)); sys.stdout.flush()


def run_crash(case):
    mode = "upload" if case["kind"] == "crash-upload" else "mirror"
    shape = case["shape"]
    counters = dict.fromkeys(REQUIRED_COUNTERS, 0)
    viol = []
    sigs = set()
    me = os.path.abspath(__file__)
    env = common.clean_env()
    rnd = random.Random(case["seed"])
    size = SIZES[(shape * 3 + 1) % len(SIZES)]
    with common.scratch("c09") as top:
        def fresh(prearch):
            base = os.path.join(top, "b")
            shutil.rmtree(base, ignore_errors=True); os.makedirs(base)
            if mode == "mirror":
                ba = _bob()
                up = ba.LocalArchive({"path": os.path.join(base, "src"), "flags": ["upload", "download"]}); up.wantUploadLocal(True)
                audit, ws = make_payload(os.path.join(base, "prep"), "src-r0-s%d" % size, extra_files=shape % 4)
                assert up._uploadPackage(bid_for(0), ".tgz", audit, ws)[0] == "ok"
            if prearch:
                os.makedirs(os.path.dirname(art_path(os.path.join(base, "arch"), bid_for(0))))
            return base

        _bob()      # import once; every scenario runs in a forked child of this worker (no interpreter start-up per point)

        def child(base, n, err, flags):
            r, w = os.pipe()
            pid = os.fork()
            if pid == 0:
                try:
                    os.close(r)
                    os.dup2(w, 1)
                    devnull = os.open(os.devnull, os.O_WRONLY); os.dup2(devnull, 2)
                    sys.stdout = os.fdopen(1, "w", closefd=False)
                    scenario_child(mode, base, shape, n, err, flags)
                    sys.stdout.flush()
                finally:
                    os._exit(0)
            os.close(w)
            with os.fdopen(r) as f:
                data = f.read()
            os.waitpid(pid, 0)
            lines = [l for l in data.splitlines() if l.startswith("{")]
            return (json.loads(lines[-1]) if lines else {"outcome": "none"}), None

        prearch = bool(shape % 2)
        base = fresh(prearch)
        ref, _ = child(base, 0, "NONE", [])
        if ref.get("outcome") != "ret":
            return result("inconclusive", note="reference run failed: %s" % ref)
        nev, nwr = ref["events"], ref["writes"]
        art = lambda b: art_path(os.path.join(b, "arch"), bid_for(0))
        if validate_file(art(base)) is None or validate_file(art(base))["tag"] is None:
            viol.append(violation("undisturbed-%s-did-not-publish-valid-artifact" % mode, {"ref": ref}))
        wsamples = sorted(set([1, 2, max(1, nwr // 2), max(1, nwr - 1), nwr] + [rnd.randrange(1, nwr + 1) for _ in range(3)])) if nwr else []
        points = [(n, ref["trace"][n - 1]) for n in range(1, nev + 1)] + [(-w, "write#%d" % w) for w in wsamples]
        for n, what in points:
            for err in ("KILL", "ENOSPC", "EIO", "EACCES"):
                for flags in ([], ["nofail"]):
                    if err == "KILL" and flags:
                        continue
                    base = fresh(prearch)
                    out, rr = child(base, n, err, flags)
                    final = validate_file(art(base))
                    ctx = {"mode": mode, "shape": shape, "point": what, "n": n, "fault": err, "flags": flags, "outcome": {k: out.get(k) for k in ("outcome", "res", "msg", "fired")}, "final": final}
                    sigs.add("%s|%d|%s|%s|%s" % (mode, shape, what.split(" ")[0] + str(n), err, "nofail" if flags else ""))
                    if err == "KILL":
                        counters["kill_points"] += 1
                        if out.get("outcome") != "killed":
                            # the point was not reached in this run (e.g. directory already existed): nothing to judge
                            continue
                    else:
                        counters["fault_points"] += 1
                    if final is not None and final["tag"] is None:
                        viol.append(violation("incomplete-artifact-under-artifact-name-after-" + ("kill" if err == "KILL" else "fault"), dict(ctx, why=final["why"])))
                        continue
                    if err == "KILL":
                        # recovery: a later uploader must be able to publish / the name must hold a valid artifact afterwards
                        out2, _ = child(base, 0, "NONE", [])
                        f2 = validate_file(art(base))
                        if f2 is None or f2["tag"] is None or (final is not None and (f2["tag"], f2["ino"]) != (final["tag"], final["ino"])):
                            viol.append(violation("archive-unusable-or-artifact-replaced-after-killed-" + mode, dict(ctx, second=out2.get("outcome"), final2=f2)))
                        continue
                    if not out.get("fired"):
                        continue
                    oc = out.get("outcome")
                    if oc in ("EXC", "none"):
                        # not demanded by the property (which constrains the artifact name only): counted, and the
                        # archive state is still judged below as a failed operation
                        counters["faults_surfaced_as_internal_exception"] = counters.get("faults_surfaced_as_internal_exception", 0) + 1
                        oc = "BuildError"
                    if mode == "upload":
                        failed = oc == "BuildError" or (oc == "ret" and str(out.get("res", "")).startswith(("error", "Cannot")) or "error (" in str(out.get("res", "")))
                        if flags and oc == "BuildError":
                            viol.append(violation("nofail-upload-raised", ctx))
                        cleanup = what.startswith("os.remove")
                        if failed and final is not None and not cleanup:
                            viol.append(violation("failed-upload-left-artifact", ctx))
                        if not failed and final is None:
                            viol.append(violation("upload-reported-ok-but-nothing-published", ctx))
                    else:
                        # a cache problem may fail the download (BuildError) or be ignored (nofail); the extracted result must be right
                        if oc == "ret" and out["res"][0] and not out.get("extracted_ok"):
                            viol.append(violation("mirrored-download-extracted-wrong-content", ctx))
                        if flags and oc == "BuildError" and "cache" in out.get("msg", "").lower():
                            viol.append(violation("nofail-cache-error-failed-download", ctx))
                        if final is not None and what.startswith(("os.link", "open")) and oc == "BuildError":
                            viol.append(violation("failed-mirror-left-artifact", ctx))
    return result("held", sigs=sorted(sigs), counters=counters, violations=viol[:6],
                  sample={"kind": case["kind"], "shape": shape, "fs_events": ref["trace"], "writes": nwr})


def run_case(case):
    return run_race(case) if case["kind"] == "race" else run_crash(case)


LEVEL_TEXT = ("Fault enumeration for crashes/IO errors (every fs operation of a traced upload or mirrored download is a kill point and a "
              "fault point with three errno values, plus sampled write faults, for several payload shapes) combined with schedule "
              "exploration for the concurrent part (real processes, seeded delays between fs operations, reader history checked offline).")
LEVEL_NOTE = "file backend only; interleavings are sampled (delays), not enumerated; process-crash model (no power loss) as the property's quantifier says."
TECHNIQUE = "offline history checker over reader/uploader/mirror event logs (validity, stability, once-only, nothing-after-failure) + kill-at-N / fail-at-N fault injection through audit hooks"


if __name__ == "__main__":
    role = sys.argv[1]
    if role == "u":
        role_uploader(sys.argv[2], int(sys.argv[3]), int(sys.argv[4]), int(sys.argv[5]), float(sys.argv[6]))
    elif role == "m":
        role_mirror(sys.argv[2], int(sys.argv[3]), int(sys.argv[4]), int(sys.argv[5]), float(sys.argv[6]))
    elif role == "r":
        role_reader(sys.argv[2], int(sys.argv[3]), int(sys.argv[4]), float(sys.argv[5]))
    elif role == "scenario":
        scenario_child(sys.argv[2], sys.argv[3], int(sys.argv[4]), int(sys.argv[5]), sys.argv[6], [f for f in sys.argv[7].split(",") if f])
