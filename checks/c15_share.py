"""C15 Shared package store is safe under concurrent projects.

k processes act as projects against one store with the real bob.share.LocalShare (install with/without move, use followed by
the builder's symlink, release, quota gc, --all-unused gc) under seeded programmes and delays between fs operations.  Per
process logs carry call/return times and results; payloads are tagged.  An offline checker judges the merged history:
completeness + hash of every package handed out, at most one install winner per Build-Id life time, interval-sound gc (a
link that existed during the whole gc protects its package), no failure caused by concurrency or an empty store, and at
quiescence repo.json == installed packages.  A sequential part checks the quota rule (only unused, oldest first, no more
than needed).
"""
import hashlib, json, os, random, shutil, sys, time

if __name__ == "__main__":
    sys.path.insert(0, os.path.dirname(os.path.dirname(os.path.abspath(__file__))))
from lib import common, treecanon
from lib.common import result, violation

ID = "C15"
LEVEL = "exploration"
BATCH = 1
CASE_TIMEOUT = 600
MIN_NONTRIVIAL = 30
REQUIRED_COUNTERS = ["operations", "installs_won", "uses_served", "gc_calls", "gc_removed", "quiescent_accounting_checks", "quota_rule_checks", "empty_store_cases"]
RULE = ("concurrent cases: 3-6 processes x 14-30 operations on 5 Build-Ids against one store (seeded programmes, 0-2 ms delays between the fs "
        "operations of bob.share), quota small enough to force automatic cleaning; sequential cases: quota rule and empty-store shapes "
        "(directory missing / present but empty / stray temp directories). distinct_nontrivial = distinct (operation, outcome, concurrent "
        "operation kinds overlapping in time) triples observed.")
ASSUMPTIONS = ["projects follow the builder's protocol: useSharedPackage, then create the workspace symlink; a released workspace removes its link",
               "a gc may collect a package whose link appears or disappears during the gc (only links that existed through the whole gc interval protect)"]

NBIDS = 5


def plan(tier, seed):
    n = 24 if tier == "quick" else 800
    cases = [{"kind": "concurrent", "seed": common.subseed(seed, "c15", i), "procs": 3 + i % 4, "ops": 16 if tier == "quick" else 30} for i in range(n)]
    for i in range(4 if tier == "quick" else 60):
        cases.append({"kind": "sequential", "seed": common.subseed(seed, "c15s", i)})
    return cases


def bid(i):
    return hashlib.sha1(b"pkg%d" % i).digest()


def payload_files(i):
    return {"f": (bid(i).hex() * (20 + 13 * i)).encode(), "sub/g": b"g%d" % i}


def _share(store, quota):
    sys.path.insert(0, os.path.join(common.REPO, "pym"))
    from bob.share import LocalShare
    return LocalShare({"path": store, "quota": quota})


def install_delay(store, seed):
    rnd = random.Random(seed)
    mypid = os.getpid()
    def hook(ev, args):
        if ev in ("open", "os.rename", "os.mkdir", "os.remove", "shutil.move", "os.utime") and os.getpid() == mypid:
            a = args[0] if args else None
            if isinstance(a, (str, bytes)) and store in os.fsdecode(a):
                time.sleep(rnd.random() * 0.002)
    sys.addaudithook(hook)


def worker(base, wid, seed, nops, quota):
    from lib import common as _c
    sys.path.insert(0, os.path.join(common.REPO, "pym"))
    from bob.utils import hashDirectory
    from bob.errors import BuildError
    store = os.path.join(base, "store")
    install_delay(store, seed)
    share = _share(store, quota)
    rnd = random.Random(seed)
    log = []
    # observability: the automatic cleaning inside installSharedPackage() calls gc() without a progress callback; wrap the method
    # (harness side, hit-counted) so that those removals appear in the history as well
    import bob.share as _bs
    _orig_gc = _bs.LocalShare.gc
    def _gc(self, pruneUsed, pruneUnused, dryRun=False, progress=lambda x: None, newPkg=None):
        removed = []
        t0 = time.monotonic()
        try:
            return _orig_gc(self, pruneUsed, pruneUnused, dryRun, lambda p_: (removed.append(p_), progress(p_)), newPkg)
        finally:
            if newPkg is not None:
                log.append({"w": wid, "i": -1, "op": "autogc", "bid": -1, "t0": t0, "t1": time.monotonic(), "removed": removed})
    _bs.LocalShare.gc = _gc
    links = {}      # ws -> bid index (currently linked)
    wsdir = os.path.join(base, "w%d" % wid)
    # like the builder: the project's working directory is its own root and workspaces are passed as RELATIVE paths
    os.makedirs(wsdir, exist_ok=True)
    os.chdir(wsdir)
    for i in range(nops):
        b = rnd.randrange(NBIDS)
        op = rnd.choice(["install", "install", "use", "use", "use", "release", "gc", "gcall"])
        e = {"w": wid, "i": i, "op": op, "bid": b, "t0": time.monotonic()}
        try:
            if op == "install":
                ws = os.path.join(wsdir, "p%d" % i, "workspace")
                for fn, data in payload_files(b).items():
                    os.makedirs(os.path.dirname(os.path.join(ws, fn)), exist_ok=True)
                    open(os.path.join(ws, fn), "wb").write(data)
                open(os.path.join(ws, "..", "audit.json.gz"), "wb").write(b"audit-%d" % b)
                h = hashDirectory(ws, os.path.join(ws, "..", "cache.bin"))
                move = rnd.random() < 0.5
                path, installed = share.installSharedPackage(os.path.relpath(ws, wsdir), bid(b), h, move)
                e.update(installed=installed, path=path, move=move)
                if installed:
                    # the builder replaces the workspace by a link to the shared location
                    if os.path.lexists(ws):
                        shutil.rmtree(ws)
                    os.symlink(os.path.join(path, "workspace"), ws)
                    links[ws] = b
                    e["linked"] = time.monotonic()
                    e["ws"] = ws
                    e["content_ok"] = all(os.path.exists(os.path.join(ws, fn)) for fn in payload_files(b))
            elif op == "use":
                ws = os.path.join(wsdir, "u%d" % i, "workspace")
                os.makedirs(os.path.dirname(ws))
                path, h = share.useSharedPackage(os.path.relpath(ws, wsdir), bid(b))
                e["t_ret"] = time.monotonic()
                e.update(path=path)
                if path:
                    os.symlink(os.path.join(path, "workspace"), ws)
                    e["linked"] = time.monotonic()
                    e["ws"] = ws
                    links[ws] = b
                    # what the project now sees through its link
                    ok = True
                    for fn, data in payload_files(b).items():
                        try:
                            ok = ok and open(os.path.join(ws, fn), "rb").read() == data
                        except OSError:
                            ok = False
                    e["content_ok"] = ok
                    try:
                        meta = json.load(open(os.path.join(path, "pkg.json")))
                        e["hash_ok"] = bytes.fromhex(meta["hash"]) == h == hashDirectory(os.path.join(path, "workspace"))
                    except (OSError, ValueError):
                        e["hash_ok"] = None
            elif op == "release":
                if links:
                    ws = rnd.choice(sorted(links))
                    e["ws"] = ws; e["bid"] = links.pop(ws)
                    os.unlink(ws)
                    e["unlinked"] = time.monotonic()
            elif op == "gc":
                removed = []
                r = share.gc(False, False, False, lambda p: removed.append(p))
                e.update(removed=list(removed), size=r)
            else:
                removed = []
                r = share.gc(False, True, False, lambda p: removed.append(p))
                e.update(removed=list(removed), size=r)
        except BuildError as ex:
            e["error"] = "BuildError: " + str(ex)[:200]
        except Exception as ex:
            e["error"] = "%s: %s" % (type(ex).__name__, str(ex)[:200])
        e["t1"] = time.monotonic()
        log.append(e)
    json.dump({"log": log, "links": {ws: b for ws, b in links.items()}}, open(os.path.join(base, "log%d.json" % wid), "w"))


def bid_of_path(p):
    h = os.path.basename(os.path.dirname(os.path.dirname(p))) + os.path.basename(os.path.dirname(p)) + os.path.basename(p)
    h = h[:-2] if h.endswith("-3") else h
    for i in range(NBIDS):
        if bid(i).hex() == h:
            return i
    return None


def store_inventory(store):
    inst = {}
    for a in sorted(os.listdir(store)) if os.path.isdir(store) else []:
        pa = os.path.join(store, a)
        if len(a) == 2 and os.path.isdir(pa):
            for b in os.listdir(pa):
                for c in os.listdir(os.path.join(pa, b)):
                    p = os.path.join(pa, b, c)
                    try:
                        meta = json.load(open(os.path.join(p, "pkg.json")))
                    except Exception as e:
                        inst[a + b + c[:-2]] = "UNREADABLE pkg.json: %s" % e
                        continue
                    inst[a + b + c[:-2]] = meta["size"]
    return inst


def run_concurrent(case):
    import subprocess
    counters = dict.fromkeys(REQUIRED_COUNTERS, 0)
    viol, sigs = [], set()
    me = os.path.abspath(__file__)
    rnd = random.Random(case["seed"])
    quota = rnd.choice([1500, 3000, 6000, None])
    with common.scratch("c15") as base:
        shape = rnd.choice(["missing", "empty", "stray", "missing", "behind-symlink", "behind-symlink"])
        store = os.path.join(base, "store")
        if shape == "behind-symlink":
            # the configured spelling of the store path contains a symlink component (symlinked $HOME, /var/cache -> /data/cache ...)
            os.makedirs(os.path.join(base, "real-store")); os.symlink("real-store", store)
        elif shape != "missing":
            os.makedirs(store)
        if shape == "stray":
            os.makedirs(os.path.join(store, "tmpabc123"))
        env = common.clean_env()
        procs = [subprocess.Popen([common.PY, me, "worker", base, str(w), str(case["seed"] * 31 + w), str(case["ops"]), str(quota)], env=env, start_new_session=True,
                                  stdout=subprocess.DEVNULL, stderr=subprocess.DEVNULL)
                 for w in range(case["procs"])]
        deadline = time.time() + 240
        for p in procs:
            try:
                p.wait(timeout=max(1, deadline - time.time()))
            except subprocess.TimeoutExpired:
                for q in procs:
                    common.kill_group(q.pid)
                return result("inconclusive", note="workers timed out (possible deadlock - not judged by wall clock)")
        logs, final_links = [], {}
        for w in range(case["procs"]):
            p = os.path.join(base, "log%d.json" % w)
            if not os.path.exists(p):
                return result("inconclusive", note="worker %d died" % w)
            d = json.load(open(p))
            logs += d["log"]; final_links.update(d["links"])
        logs.sort(key=lambda e: e["t0"])
        counters["operations"] = len(logs)
        if shape != "missing":
            counters["empty_store_cases"] += 1

        def overlapping(e):
            return sorted({o["op"] for o in logs if o is not e and o["t0"] < e["t1"] and o["t1"] > e["t0"]})

        # 1. no operation fails because of concurrency / an empty store
        for e in logs:
            if "error" in e:
                viol.append(violation(classify_error(e), {"op": e["op"], "error": e["error"], "store_shape": shape, "concurrent_with": overlapping(e)}))
            sigs.add("%s|%s|%s" % (e["op"], "err" if "error" in e else ("won" if e.get("installed") else "served" if e.get("path") else "-"), ",".join(overlapping(e))))
        # 2. at most one install winner per life time of a Build-Id
        removals = []
        for e in logs:
            if e["op"] in ("gc", "gcall", "autogc") and "removed" in e:
                counters["gc_calls"] += 1
                for p in e["removed"]:
                    removals.append((e["t0"], e["t1"], bid_of_path(p), e))
                    counters["gc_removed"] += 1
        for b in range(NBIDS):
            wins = sorted((e["t0"], e["t1"]) for e in logs if e["op"] == "install" and e.get("installed") and e["bid"] == b)
            counters["installs_won"] += len(wins)
            for (a0, a1), (b0, b1) in zip(wins, wins[1:]):
                # two winners need a collection of that id in between (time intervals may touch)
                if not any(rb == b and r1 >= a0 and r0 <= b1 for r0, r1, rb, _ in removals):
                    viol.append(violation("package-installed-twice-without-collection-in-between", {"bid": b, "winners": [(a0, a1), (b0, b1)]}))
        # 3. what a project is handed out is complete and matches its hash
        for e in logs:
            if e["op"] in ("use", "install") and e.get("path") and e.get("linked"):
                counters["uses_served"] += 1
                if e.get("content_ok") is False or e.get("hash_ok") is False:
                    # was the package collected between useSharedPackage() returning and the project creating its link?
                    hit = [r for r in removals if r[2] == e["bid"] and r[1] >= e["t0"] and r[0] <= e.get("linked", e["t1"])]
                    mech = "package-collected-between-use-and-link-creation" if hit else "served-package-incomplete-or-hash-mismatch"
                    viol.append(violation(mech, {"bid": e["bid"], "content_ok": e.get("content_ok"), "hash_ok": e.get("hash_ok"), "concurrent_with": overlapping(e)}))
        # 4. interval-sound gc: a link that existed during the whole gc protects its package - provided the package instance is still
        #    the one the workspace registered with (if that instance was collected in the window between use/install returning and
        #    the link being created, the workspace is left with an unregistered link: that is the mechanism of check 3, reported there)
        link_iv = []
        for e in logs:
            if e.get("linked") and e.get("ws"):
                end = next((r["unlinked"] for r in logs if r["op"] == "release" and r.get("ws") == e["ws"] and r.get("unlinked", 0) > e["linked"]), float("inf"))
                link_iv.append((e["linked"], end, e["bid"], e["ws"], e["t0"]))
        for r0, r1, rb, ge in removals:
            for l0, l1, lb, ws, reg0 in link_iv:
                if lb == rb and l0 < r0 and l1 > r1:
                    earlier = [x for x in removals if x[2] == rb and x[3] is not ge and x[1] >= reg0 and x[0] <= r0]
                    if not earlier:
                        viol.append(violation("gc-collected-package-that-was-linked-during-the-whole-gc", {"bid": rb, "gc": ge["op"], "workspace": os.path.relpath(ws, base)}))
                    elif any(x[1] >= reg0 and x[0] <= l0 for x in earlier):
                        viol.append(violation("package-collected-between-use-and-link-creation", {"bid": rb, "workspace": os.path.relpath(ws, base), "seen_as": "unregistered link of a re-installed package"}))
        # 5. quiescence: accounting
        counters["quiescent_accounting_checks"] += 1
        inst = store_inventory(store)
        try:
            repo = json.load(open(os.path.join(store, "repo.json"))) if os.path.exists(os.path.join(store, "repo.json")) else {"pkgs": {}}
        except ValueError as ex:
            repo = None
            viol.append(violation("repo-json-unreadable-at-quiescence", {"error": str(ex)[:100]}))
        if repo is not None and repo.get("pkgs", {}) != inst:
            viol.append(violation("repo-accounting-differs-from-installed-packages", {"repo.json": repo.get("pkgs"), "installed": inst}))
        for h, size in inst.items():
            if isinstance(size, int):
                p = os.path.join(store, h[0:2], h[2:4], h[4:] + "-3", "workspace")
                real = sum(os.lstat(os.path.join(dp, f)).st_size for dp, ds, fs in os.walk(p) for f in fs + ds)
                bi = next((i for i in range(NBIDS) if bid(i).hex() == h), None)
                want = payload_files(bi) if bi is not None else None
                if want is not None and any(not os.path.exists(os.path.join(p, fn)) or open(os.path.join(p, fn), "rb").read() != d for fn, d in want.items()):
                    viol.append(violation("installed-package-incomplete-at-quiescence", {"bid": bi}))
        leftovers = [f for f in (os.listdir(store) if os.path.isdir(store) else []) if f.startswith("tmp") and f != "tmpabc123"]
        if leftovers:
            counters["temp_dirs_left"] = len(leftovers)
    seen = {}
    for v in viol:
        seen.setdefault(v["mechanism"], []).append(v)
    viol = [x for vs in seen.values() for x in vs[:2]]
    return result("held", sigs=sorted(sigs), counters=counters, violations=viol[:6],
                  sample={"kind": "concurrent", "procs": case["procs"], "quota": quota, "store": shape,
                          "history_head": [(e["w"], e["op"], e["bid"], e.get("installed"), bool(e.get("path")), e.get("error")) for e in logs[:10]]})


def classify_error(e):
    msg = e["error"]
    if "JSONDecodeError" in msg or "Corrupt meta info" in msg or "Expecting value" in msg:
        return "metadata-read-while-half-written"
    if "FileNotFoundError" in msg and "repo.json" in msg:
        return "operation-fails-on-store-without-repo-json"
    return "share-operation-raised:" + msg.split(":")[0]


def run_sequential(case):
    """quota rule and empty store shapes, one process"""
    sys.path.insert(0, os.path.join(common.REPO, "pym"))
    from bob.utils import hashDirectory
    rnd = random.Random(case["seed"])
    counters = dict.fromkeys(REQUIRED_COUNTERS, 0)
    viol, sigs = [], set()
    with common.scratch("c15s") as base:
        # empty store shapes
        for shape in ("missing", "empty", "stray"):
            store = os.path.join(base, "store-" + shape)
            if shape != "missing": os.makedirs(store)
            if shape == "stray": os.makedirs(os.path.join(store, "tmpxyz"))
            sh = _share(store, 1000)
            counters["empty_store_cases"] += 1
            for name, fn in (("gc-quota", lambda: sh.gc(False, False)), ("gc-all-unused", lambda: sh.gc(False, True)), ("use", lambda: sh.useSharedPackage(os.path.join(base, "ws"), bid(0))),
                             ("contains", lambda: sh.contains(bid(0)))):
                try:
                    fn()
                    sigs.add("empty|%s|%s|ok" % (shape, name))
                except Exception as ex:
                    viol.append(violation("operation-fails-on-empty-store", {"store": shape, "op": name, "error": "%s: %s" % (type(ex).__name__, str(ex)[:150])}))
        # quota rule
        store = os.path.join(base, "store")
        if rnd.random() < 0.5:
            os.makedirs(os.path.join(base, "real-store")); os.symlink("real-store", store)
        npk = rnd.randrange(4, 9)
        sizes = {}
        sh = _share(store, None)
        used = set()
        for i in range(npk):
            ws = os.path.join(base, "p%d" % i, "workspace"); os.makedirs(ws)
            data = os.urandom(rnd.randrange(100, 900))
            open(os.path.join(ws, "f"), "wb").write(data)
            open(os.path.join(ws, "..", "audit.json.gz"), "wb").write(b"a")
            h = hashDirectory(ws, os.path.join(ws, "..", "cache.bin"))
            b = hashlib.sha1(b"q%d" % i).digest()
            path, inst = sh.installSharedPackage(ws, b, h, True)
            sizes[b.hex()] = json.load(open(os.path.join(path, "pkg.json")))["size"]
            if rnd.random() < 0.4:
                os.symlink(os.path.join(path, "workspace"), ws); used.add(b.hex())
            # distinct, known ages
            t = 1_600_000_000 + rnd.randrange(0, 10_000) * 10 + i
            os.utime(os.path.join(path, "pkg.json"), (t, t))
        ages = {}
        for h in sizes:
            ages[h] = os.stat(os.path.join(store, h[0:2], h[2:4], h[4:] + "-3", "pkg.json")).st_mtime_ns
        total = sum(sizes.values())
        quota = rnd.randrange(0, total + 200)
        removed = []
        r = _share(store, quota).gc(False, False, False, lambda p: removed.append(os.path.basename(os.path.dirname(os.path.dirname(p))) + os.path.basename(os.path.dirname(p)) + os.path.basename(p)[:-2]))
        counters["quota_rule_checks"] += 1
        counters["gc_calls"] += 1; counters["gc_removed"] += len(removed)
        ctx = {"sizes": sizes, "used": sorted(used), "quota": quota, "removed": removed, "returned_size": r}
        # reference: unused packages oldest first until size <= quota
        expect, size = [], total
        for h in sorted((h for h in sizes if h not in used), key=lambda h: ages[h]):
            if size <= quota:
                break
            expect.append(h); size -= sizes[h]
        if any(h in used for h in removed):
            viol.append(violation("quota-gc-removed-used-package", ctx))
        elif removed != expect:
            viol.append(violation("quota-gc-not-oldest-first-or-not-minimal", dict(ctx, expected=expect)))
        elif r != size:
            viol.append(violation("gc-returned-wrong-repository-size", dict(ctx, expected_size=size)))
        inst = store_inventory(store)
        repo = json.load(open(os.path.join(store, "repo.json")))
        counters["quiescent_accounting_checks"] += 1
        if repo.get("pkgs") != inst:
            viol.append(violation("repo-accounting-differs-from-installed-packages", {"repo.json": repo.get("pkgs"), "installed": inst}))
        sigs.add("quota|n%d|removed%d|%s" % (npk, len(removed), "under" if total <= quota else "over"))
    return result("held", sigs=sorted(sigs), counters=counters, violations=viol[:6], sample={"kind": "sequential", "quota_case": {"packages": npk, "removed": len(removed)}})


def run_case(case):
    return run_concurrent(case) if case["kind"] == "concurrent" else run_sequential(case)


LEVEL_TEXT = ("Schedule exploration: real processes run seeded programmes against one store with delays injected between the fs operations of "
              "bob.share; the merged history is judged offline (install once-only, served packages complete and hash-correct, interval-sound gc, "
              "no failures caused by concurrency or an empty store, accounting at quiescence); the quota rule is checked against a reference "
              "computation in sequential cases.")
LEVEL_NOTE = "Interleavings are sampled by delays, not enumerated; only the LocalShare backend; the builder's part of the protocol (symlink creation) is emulated by the harness."
TECHNIQUE = "offline history checker over per-process operation logs (once-only, interval soundness, conservation at quiescence) with delay injection at fs operations"


if __name__ == "__main__" and len(sys.argv) > 1 and sys.argv[1] == "worker":
    q = sys.argv[6]
    worker(sys.argv[2], int(sys.argv[3]), int(sys.argv[4]), int(sys.argv[5]), None if q == "None" else int(q))
