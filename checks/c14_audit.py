"""C14 Audit trails are complete and truthful.

After fresh, incremental, partially downloaded and shared builds of generated projects every step workspace of the last
invocation is visited.  Independent structural validator (from doc/manual/audit-trail.rst); closure over
dependencies.{args,tools,sandbox}; variant-id = API id of that step, result-hash = uncached hashDirectory of the workspace,
meta.{recipe,package,step} and metaEnv = API/generator truth, argument / tool records = records of the steps the API names,
dist build-ids = artifact names in the archive whose embedded audit equals the workspace's audit.  Over all records seen:
record-without-id <-> artifact-id is a bijection.
"""
import copy, gzip, hashlib, json, os, random, re, shutil, tarfile, io
from lib import common, projgen, edits, e2e, treecanon, bobapi, dump
from lib.common import result, violation

ID = "C14"
LEVEL = "exploration"
BATCH = 1
CASE_TIMEOUT = 1800
MIN_NONTRIVIAL = 20
REQUIRED_COUNTERS = ["audits_checked", "records_seen", "dependency_links_checked", "result_hashes_recomputed", "archive_artifacts_checked", "shared_packages_checked", "scm_states_checked", "invocations"]
RULE = ("per case: generated project (tools, multiPackage, meta environment, import sources, shared packages) built fresh with --upload, "
        "rebuilt incrementally after 1-2 edits (also with --shared --install, and in a second workspace with downloads), then every "
        "src/build/dist workspace listed by `bob query-path` is audited. distinct_nontrivial = distinct (build history kind, step kind, "
        "dependency shape of the record) combinations.")
ASSUMPTIONS = ["truth about ids, recipe names, package paths, meta environment, tools and arguments comes from the public Package/Step API and the generator",
               "result hashes are recomputed with the uncached hashDirectory (C11 vouches for it)",
               "a consumer that was not rebuilt may still reference the previous artifact of a rebuilt dependency as long as variant-id and result-hash of that record equal the dependency's current ones"]

HEX = re.compile(r"^[0-9a-f]{40}$")


def plan(tier, seed):
    n = 8 if tier == "quick" else 300
    return [{"seed": common.subseed(seed, "c14", i)} for i in range(n)]


def validate_record(rec):
    """documented structure; returns list of problems"""
    p = []
    if not isinstance(rec, dict):
        return ["record is not an object"]
    for k in ("artifact-id", "variant-id", "build-id", "result-hash"):
        if not isinstance(rec.get(k), str) or not HEX.match(rec.get(k, "")):
            p.append("missing or malformed " + k)
    if not isinstance(rec.get("meta"), dict) or any(not isinstance(v, str) for v in rec.get("meta", {}).values()):
        p.append("meta must map strings to strings")
    else:
        for k in ("bob", "package", "recipe", "step"):
            if k not in rec["meta"]:
                p.append("meta." + k + " missing")
        if rec["meta"].get("step") not in ("src", "build", "dist"):
            p.append("meta.step invalid")
    b = rec.get("build")
    if not isinstance(b, dict):
        p.append("build missing")
    else:
        for k in ("date", "machine", "nodename", "release", "sysname", "version"):
            if not isinstance(b.get(k), str):
                p.append("build." + k + " missing")
        if isinstance(b.get("date"), str) and not re.match(r"^\d{4}-\d\d-\d\dT\d\d:\d\d:\d\d(\.\d+)?\+00:00$", b["date"]):
            p.append("build.date is not UTC ISO 8601: " + b["date"])
    if not isinstance(rec.get("env"), str):
        p.append("env missing")
    if "metaEnv" in rec and (not isinstance(rec["metaEnv"], dict) or any(not isinstance(v, str) for v in rec["metaEnv"].values())):
        p.append("metaEnv malformed")
    if not isinstance(rec.get("scms"), list) or any(not isinstance(s, dict) or "type" not in s or "dir" not in s for s in rec.get("scms", [])):
        p.append("scms malformed")
    d = rec.get("dependencies")
    if not isinstance(d, dict):
        p.append("dependencies missing")
    else:
        if "args" in d and (not isinstance(d["args"], list) or any(not HEX.match(str(a)) for a in d["args"])):
            p.append("dependencies.args malformed")
        if "tools" in d and (not isinstance(d["tools"], dict) or any(not HEX.match(str(a)) for a in d["tools"].values())):
            p.append("dependencies.tools malformed")
        if "sandbox" in d and not HEX.match(str(d["sandbox"])):
            p.append("dependencies.sandbox malformed")
        if set(d) - {"args", "tools", "sandbox"}:
            p.append("unknown dependency kinds " + str(sorted(set(d) - {"args", "tools", "sandbox"})))
    return p


def rec_deps(rec):
    d = rec.get("dependencies", {})
    return list(d.get("args", [])) + list(d.get("tools", {}).values()) + ([d["sandbox"]] if "sandbox" in d else [])


def api_truth(proj, model):
    """package path -> API facts (forked child)"""
    r, w = os.pipe()
    pid = os.fork()
    if pid == 0:
        out = {}
        try:
            os.close(r)
            devnull = os.open(os.devnull, os.O_WRONLY); os.dup2(devnull, 2); os.dup2(devnull, 1)
            with bobapi.project(proj, defines=model.get("defines")) as (rs, ps):
                for e in dump.tree_dump(ps, with_scripts=False):
                    out[e["path"]] = e
        except BaseException as ex:
            out = {"__error__": "%s: %s" % (type(ex).__name__, str(ex)[:200])}
        with os.fdopen(w, "w") as f:
            json.dump(out, f)
        os._exit(0)
    os.close(w)
    with os.fdopen(r) as f:
        data = f.read()
    os.waitpid(pid, 0)
    return json.loads(data) if data else {"__error__": "no output"}


def audit_model(rnd, base):
    feats = rnd.sample(["classes", "pdeps", "weak", "fwd", "checkoutscript"], rnd.randrange(1, 5)) + ["src", "tools", "menv", "multi"]
    m = projgen.gen_model(rnd, rnd.randrange(4, 8), feats)
    names = list(m["recipes"])
    # make sure there is a multiPackage and a shared package
    if not any(r.get("multi") for r in m["recipes"].values()):
        k0 = lambda: {k: [] for k in projgen.KINDS}
        T = lambda: projgen.new_tok(rnd)
        m["recipes"]["mp"] = {"env": {}, "vars": k0(), "weak": k0(), "tok": {"checkout": None, "build": T(), "package": None}, "tools": k0(), "toolsWeak": k0(), "depends": [],
                              "menv": {"LICENSE": "BSD"},
                              "multi": {"a": {"tok": {"checkout": None, "build": None, "package": T()}, "vars": k0()},
                                        "b": {"tok": {"checkout": None, "build": T(), "package": T()}, "vars": k0(), "menv": {"VERSION": "2"}}}}
        m["recipes"][names[0]]["depends"] += [{"name": "mp-a"}, {"name": "mp-b"}]
    leaf = [n for n in names[1:] if not m["recipes"][n].get("multi") and not m["recipes"][n].get("depends") and (m["recipes"][n].get("cdet") is not False)]
    for n in leaf[:2]:
        if not (m["recipes"][n].get("tok") or {}).get("checkout") or m["recipes"][n].get("cdet"):
            m["recipes"][n]["shared"] = True
    m["default"]["archive"] = {"backend": "file", "path": os.path.join(base, "archive")}
    m["default"]["share"] = {"path": os.path.join(base, "share")}
    m["evlog"] = True
    return m


def run_case(case):
    common.repo_path_setup()
    import bob.input
    from bob.utils import hashDirectory
    rnd = random.Random(case["seed"])
    counters = dict.fromkeys(REQUIRED_COUNTERS, 0)
    viol, sigs = [], set()
    id2rec, rec2id = {}, {}
    with common.scratch("c14") as base:
        model = bobapi.gen_valid_model(rnd, lambda: audit_model(rnd, base))
        if model is None:
            return result("trivial", counters=counters, note="no valid model")
        arch = model["default"]["archive"]["path"]
        W = os.path.join(base, "W")

        EV = os.path.join(base, "evlog")

        def audit_workspace(proj, st, label, run):
            executed = {os.path.realpath(x[2]) for x in e2e.read_evlog(EV)}
            try:
                os.unlink(EV)
            except OSError:
                pass
            # the invocation's own log names every step workspace it visited (executed, skipped, downloaded, shared)
            visited = {os.path.join(proj, x) for x in re.findall(r"dev/(?:src|build|dist)/[^\s()]+?/workspace", run.stdout + run.stderr)}
            truth = api_truth(proj, st)
            if "__error__" in truth:
                return
            # (kind, vid) -> package paths (several paths may lead to the same variant)
            byvid = {}
            for path, e in truth.items():
                for kind, key in (("src", "checkout"), ("build", "build"), ("dist", "package")):
                    if e[key]:
                        byvid.setdefault((kind, e[key]["vid"]), []).append(path)
            own = {}      # workspace dir -> (record, truth entry, kind)
            for kind, key in (("src", "checkout"), ("build", "build"), ("dist", "package")):
                d, _ = e2e.dists(proj, st, "dev", field=kind)
                for path, ws in d.items():
                    e = truth.get(path)
                    if e is None or not e[key]:
                        continue
                    if ws not in visited:
                        counters["workspaces_not_visited_by_last_invocation"] = counters.get("workspaces_not_visited_by_last_invocation", 0) + 1
                        continue
                    af = os.path.join(ws, "..", "audit.json.gz")
                    ctx = {"history": label, "package": path, "step": kind}
                    if not os.path.exists(af):
                        viol.append(violation("audit-trail-missing", ctx)); continue
                    try:
                        doc = json.loads(gzip.decompress(open(af, "rb").read()))
                    except Exception as ex:
                        viol.append(violation("audit-trail-unreadable", dict(ctx, error=str(ex)[:100]))); continue
                    counters["audits_checked"] += 1
                    rec = doc.get("artifact")
                    refs = {r.get("artifact-id"): r for r in doc.get("references", []) if isinstance(r, dict)}
                    probs = validate_record(rec)
                    for r_ in refs.values():
                        probs += ["reference: " + x for x in validate_record(r_)]
                    if probs:
                        viol.append(violation("audit-record-violates-documented-structure", dict(ctx, problems=probs[:4]))); continue
                    for r_ in [rec] + list(refs.values()):
                        counters["records_seen"] += 1
                        body = json.dumps({k: v for k, v in r_.items() if k != "artifact-id"}, sort_keys=True)
                        if id2rec.setdefault(r_["artifact-id"], body) != body:
                            viol.append(violation("same-artifact-id-different-record", dict(ctx, artifact=r_["artifact-id"])))
                        if rec2id.setdefault(body, r_["artifact-id"]) != r_["artifact-id"]:
                            viol.append(violation("equal-records-different-artifact-id", dict(ctx)))
                    # identity
                    if rec["variant-id"] != e[key]["vid"]:
                        viol.append(violation("audit-variant-id-differs-from-step", dict(ctx, audit=rec["variant-id"][:12], api=e[key]["vid"][:12])))
                    if rec["meta"]["step"] != kind:
                        viol.append(violation("audit-step-name-wrong", dict(ctx, audit=rec["meta"]["step"])))
                    same_variant_paths = byvid.get((kind, e[key]["vid"]), [path])
                    if rec["meta"]["package"] not in same_variant_paths and os.path.realpath(ws) not in executed:
                        # a step that was not re-executed keeps the trail of its build time: the path it was built under may have become
                        # another variant since (e.g. the environment of that dependency edge changed) while this variant lives on elsewhere
                        counters["package_path_of_unexecuted_step_not_current"] = counters.get("package_path_of_unexecuted_step_not_current", 0) + 1
                        if rec["meta"]["recipe"] != e["recipe"]:
                            viol.append(violation("audit-recipe-name-wrong", dict(ctx, audit=rec["meta"]["recipe"], api=e["recipe"])))
                    elif rec["meta"]["package"] not in same_variant_paths:
                        viol.append(violation("audit-package-path-is-not-a-path-of-this-variant", dict(ctx, audit=rec["meta"]["package"], candidates=same_variant_paths[:4])))
                    else:
                        te = truth[rec["meta"]["package"]]
                        if rec["meta"]["recipe"] != te["recipe"]:
                            viol.append(violation("audit-recipe-name-wrong", dict(ctx, audit=rec["meta"]["recipe"], api=te["recipe"])))
                        # meta variables do not enter the variant-id: a step that was not re-executed keeps the values of its build time
                        if os.path.realpath(ws) in executed:
                            counters["meta_env_of_executed_steps_checked"] = counters.get("meta_env_of_executed_steps_checked", 0) + 1
                        if os.path.realpath(ws) in executed and sorted(rec.get("metaEnv", {}).items()) != sorted(map(tuple, te["metaEnv"])):
                            viol.append(violation("audit-meta-environment-wrong", dict(ctx, audit=rec.get("metaEnv"), api=te["metaEnv"])))
                    # result hash
                    real = ws if not os.path.islink(ws) else os.path.realpath(ws)
                    counters["result_hashes_recomputed"] += 1
                    if rec["result-hash"] != hashDirectory(real).hex():
                        viol.append(violation("audit-result-hash-differs-from-workspace-content", dict(ctx, shared=os.path.islink(ws))))
                    if os.path.islink(ws):
                        counters["shared_packages_checked"] += 1
                    # recorded SCM state = actual checkout
                    if kind == "src":
                        rname = truth[path]["recipe"]
                        rr = st["recipes"].get(rname) or st["recipes"].get(rname.rsplit("-", 1)[0]) or {}
                        want = 1 if rr.get("src") else 0
                        imports = [s_ for s_ in rec["scms"] if s_.get("type") == "import"]
                        if len(rec["scms"]) != want:
                            viol.append(violation("audit-scm-list-differs-from-recipe", dict(ctx, audit=[s_.get("type") for s_ in rec["scms"]], recipe_scms=want)))
                        for s_ in imports:
                            counters["scm_states_checked"] = counters.get("scm_states_checked", 0) + 1
                            src_url = "src/" + rr["src"] if isinstance(rr.get("src"), str) else "src/" + rname.replace("/", "_")
                            if s_.get("url") != src_url or s_.get("digest", {}).get("value") != hashDirectory(os.path.join(real, s_.get("dir", "."))).hex():
                                viol.append(violation("audit-scm-state-differs-from-checkout", dict(ctx, audit=s_, recipe_url=src_url)))
                    elif rec["scms"]:
                        viol.append(violation("audit-scm-list-differs-from-recipe", dict(ctx, audit=[s_.get("type") for s_ in rec["scms"]], recipe_scms=0)))
                    # closure
                    todo, seen = rec_deps(rec), set()
                    while todo:
                        a = todo.pop()
                        if a in seen:
                            continue
                        seen.add(a)
                        if a not in refs:
                            viol.append(violation("audit-references-incomplete", dict(ctx, missing=a[:12]))); break
                        todo += rec_deps(refs[a])
                    # dependency records name the steps the API names
                    dd = rec["dependencies"]
                    argv = [refs[a]["variant-id"] for a in dd.get("args", []) if a in refs]
                    counters["dependency_links_checked"] += len(argv) + len(dd.get("tools", {}))
                    if argv != e[key]["args"]:
                        viol.append(violation("audit-arguments-differ-from-step-arguments", dict(ctx, audit=[a[:10] for a in argv], api=[a[:10] for a in e[key]["args"]])))
                    tl = sorted((n_, refs[a]["variant-id"]) for n_, a in dd.get("tools", {}).items() if a in refs)
                    if tl != sorted((t[0], t[1]) for t in e[key]["tools"]):
                        viol.append(violation("audit-tools-differ-from-step-tools", dict(ctx, audit=[(n_, v[:10]) for n_, v in tl], api=[(t[0], t[1][:10]) for t in e[key]["tools"]])))
                    own[os.path.realpath(ws)] = (rec, refs, path, kind)
                    sigs.add("%s|%s|args%d|tools%d" % (label.split(":")[0], kind, min(len(argv), 3), min(len(tl), 2)))
            # referenced records describe the dependency as it is now (content-wise)
            cur = {}
            for ws, (rec, refs, path, kind) in own.items():
                cur[(rec["variant-id"], kind)] = rec
            for ws, (rec, refs, path, kind) in own.items():
                for a in rec_deps(rec):
                    r_ = refs.get(a)
                    if r_ is None:
                        continue
                    c = cur.get((r_["variant-id"], r_["meta"]["step"]))
                    if c is not None and c["result-hash"] != r_["result-hash"]:
                        viol.append(violation("audit-references-outdated-result-of-dependency", {"history": label, "package": path, "step": kind, "dependency": r_["meta"]["package"] + ":" + r_["meta"]["step"]}))
            return own

        def check_archive(own, label):
            names = {}
            for p, ds, fs in os.walk(arch):
                for f in fs:
                    if f.endswith("-1.tgz"):
                        names[(os.path.relpath(os.path.join(p, f), arch).replace("/", ""))[:-6]] = os.path.join(p, f)
            for ws, (rec, refs, path, kind) in own.items():
                if kind != "dist":
                    continue
                art = names.get(rec["build-id"])
                if art is None:
                    viol.append(violation("uploaded-package-not-found-under-its-audit-build-id", {"history": label, "package": path, "build-id": rec["build-id"][:12]}))
                    continue
                counters["archive_artifacts_checked"] += 1
                try:
                    with tarfile.open(art) as t:
                        emb = json.loads(gzip.decompress(t.extractfile("meta/audit.json.gz").read()))
                except Exception as ex:
                    viol.append(violation("archive-artifact-unreadable", {"package": path, "error": str(ex)[:100]})); continue
                if emb["artifact"]["variant-id"] != rec["variant-id"] or emb["artifact"]["result-hash"] != rec["result-hash"] or emb["artifact"]["build-id"] != rec["build-id"]:
                    viol.append(violation("archive-artifact-carries-a-different-audit-record", {"history": label, "package": path}))

        # 1. fresh build with upload
        projgen.write_project(W, model)
        r = e2e.build(W, model, "dev", extra=["--upload"], evlog=EV); counters["invocations"] += 1
        if r.returncode != 0:
            return result("trivial", counters=counters, note="initial build failed: " + r.tail(300))
        own = audit_workspace(W, model, "fresh", r)
        if own:
            check_archive(own, "fresh")
        # 2. incremental after edits (package/build script changes included so that workspaces are re-used for other variants)
        m2 = copy.deepcopy(model)
        for i in range(rnd.choice([1, 2])):
            edits.apply_edit(m2, rnd, ["tok", "tok", "src_mod", "env_samelen", "menv", "tool_tok", "class_tok", "dep_env"])
        projgen.write_project(W, m2)
        r = e2e.build(W, m2, "dev", extra=["--upload"], evlog=EV); counters["invocations"] += 1
        if r.returncode == 0 and not viol:
            own = audit_workspace(W, m2, "incremental", r)
            if own:
                check_archive(own, "incremental")
        # 3. shared: install, then change a shared package's script and rebuild, then go back
        if not viol:
            S = os.path.join(base, "S"); projgen.write_project(S, model)
            r = e2e.build(S, model, "dev", extra=["--shared", "--install"], evlog=EV); counters["invocations"] += 1
            if r.returncode == 0:
                audit_workspace(S, model, "shared:fresh", r)
                m3 = copy.deepcopy(model)
                shared = [n for n, rr in m3["recipes"].items() if rr.get("shared")]
                if shared and not viol:
                    m3["recipes"][shared[0]]["tok"]["package"] = projgen.new_tok(rnd)
                    projgen.write_project(S, m3)
                    r = e2e.build(S, m3, "dev", extra=["--shared", "--install"], evlog=EV); counters["invocations"] += 1
                    if r.returncode == 0:
                        audit_workspace(S, m3, "shared:package-script-changed", r)
                    projgen.write_project(S, model)
                    r = e2e.build(S, model, "dev", extra=["--shared", "--install"], evlog=EV); counters["invocations"] += 1
                    if r.returncode == 0 and not viol:
                        audit_workspace(S, model, "shared:reverted", r)
        # 4. second workspace, partially downloaded
        if not viol:
            D = os.path.join(base, "elsewhere", "D"); projgen.write_project(D, m2)
            r = e2e.build(D, m2, "dev", extra=["--download", "deps"], evlog=EV); counters["invocations"] += 1
            if r.returncode == 0:
                audit_workspace(D, m2, "downloaded-deps", r)
    seen = {}
    for v in viol:
        seen.setdefault(v["mechanism"], []).append(v)
    viol = [x for vs in seen.values() for x in vs[:2]]
    return result("held", sigs=sorted(sigs), counters=counters, violations=viol[:5], sample={"records": len(id2rec), "recipes": len(model["recipes"])})


LEVEL_TEXT = ("Exploration: after each kind of build history every audit trail on disk is parsed by an independent validator and joined with "
              "ground truth from the API, the file system (recomputed hashes) and the archive; artifact-id <-> record bijection over all records "
              "of a case.")
LEVEL_NOTE = "Import SCM only for recorded SCM state (git state is exercised by C12's universes); Jenkins specific meta keys are out of reach."
TECHNIQUE = "offline record checker over audit.json.gz files after real builds (schema from the documentation, closure, cross-check with API ids, recomputed hashes, archive names)"
