"""C20 Jenkins job graph is acyclic, complete and faithful.

In-process: a Jenkins configuration is registered in the real BobState, the real genJenkinsJobs + genJenkinsBuildOrder run
on generated recipe graphs biased to the cycle-prone shapes; structural oracles use an independent toposort and an
independent reachability walk over arguments/tools/sandbox.  IR faithfulness: every job's dumpJobSpec() is decoded the way
`bob _jexec` does (a85 -> lzma -> JSON -> PartialIR.fromData) and every built step is compared with the live Step.
"""
import asyncio, base64, json, lzma, os, random, shutil
from lib import common, projgen, bobapi
from lib.common import result, violation

ID = "C20"
LEVEL = "exploration"
BATCH = 2
CASE_TIMEOUT = 600
MIN_NONTRIVIAL = 30
REQUIRED_COUNTERS = ["graphs", "jobs", "packages_checked", "job_dependency_edges_checked", "ir_steps_compared", "multi_variant_recipes",
                     "node_jobs_executed", "node_artifacts_compared", "node_copied_upstream_artifacts"]
RULE = ("generated recipe graphs with multiPackages, several variants of one recipe (same recipe under different environments), tools and "
        "sandboxes whose providers depend on sibling variants, crosswise multiPackage dependencies (a-1 -> b-2, b-1 -> a-2), isolate regexes, "
        "several roots, sandbox on/off. distinct_nontrivial = distinct (job count, max variants per recipe, isolate?, sandbox?) shapes with >= 2 jobs.")
ASSUMPTIONS = ["Build-Ids on both sides are computed with the same harness stub for source hashes (sha1('src'+variant-id))",
               "the job spec is decoded exactly like pym/bob/cmds/jenkins/exec.py does (a85, lzma, JSON, PartialIR.fromData)"]


def plan(tier, seed):
    n = 60 if tier == "quick" else 2000
    nx = 4 if tier == "quick" else 120
    return [{"seed": common.subseed(seed, "c20", i)} for i in range(n)] + [{"seed": seed, "fold": True, "_first": True}] + \
           [{"seed": common.subseed(seed, "c20x", i), "exec": True, "_first": i < 2} for i in range(nx)]


def cycle_prone_model(rnd):
    k0 = lambda: {k: [] for k in projgen.KINDS}
    T = lambda: projgen.new_tok(rnd)
    feats = rnd.sample(["classes", "tools", "pdeps", "if", "weak", "menv", "fwd", "names", "roots2", "src"], rnd.randrange(3, 8)) + ["multi", "tools"]
    m = projgen.gen_model(rnd, rnd.randrange(5, 10), feats)
    names = list(m["recipes"])
    root = names[0]
    shape = rnd.choice(["cross-multi", "sibling-tool", "env-variants", "sandbox", "plain"])
    if shape == "cross-multi":
        # a-1 -> b-2, b-1 -> a-2 : merging all variants of a (or b) into one job would be cyclic
        for x, y in (("xa", "xb"), ("xb", "xa")):
            m["recipes"][x] = {"tok": {"checkout": None, "build": T(), "package": None}, "vars": k0(), "weak": k0(), "tools": k0(), "toolsWeak": k0(), "depends": [],
                               "multi": {"1": {"tok": {"checkout": None, "build": None, "package": T()}, "vars": k0(), "depends": [{"name": y + "-2"}]},
                                         "2": {"tok": {"checkout": None, "build": None, "package": T()}, "vars": k0()}}}
        order = [{"name": "xa-1"}, {"name": "xb-1"}]
        rnd.shuffle(order)
        m["recipes"][root]["depends"] += order
    elif shape == "sibling-tool":
        # the provider of a tool used by variant B of recipe v depends on variant A of the same recipe
        m["recipes"]["v"] = {"tok": {"checkout": None, "build": T(), "package": T()}, "vars": {"checkout": [], "build": ["VV"], "package": []}, "weak": k0(),
                             "tools": k0(), "toolsWeak": {"checkout": [], "build": ["vt"], "package": []}, "depends": []}
        m["recipes"]["vtool"] = {"tok": {"checkout": None, "build": T(), "package": T()}, "vars": k0(), "weak": k0(), "tools": k0(), "toolsWeak": k0(),
                                 "ptools": {"vt": {"path": "bin", "libs": []}}, "depends": [{"name": "v", "env": {"VV": "for-tool"}, "use": ["result"]}]}
        m["recipes"][root]["depends"] += [{"name": "vtool", "use": ["tools"], "forward": True}, {"name": "v", "env": {"VV": "final"}}]
    elif shape == "env-variants":
        tgt = names[-1]
        if not m["recipes"][tgt].get("multi"):
            m["recipes"][tgt]["vars"]["build"] = sorted(set(m["recipes"][tgt]["vars"]["build"]) | {"VA"})
            for n in names[:-1][:4]:
                m["recipes"][n]["depends"].append({"name": tgt, "env": {"VA": rnd.choice(["1", "2", "3"])}})
    elif shape == "sandbox":
        m["recipes"]["sbx"] = {"tok": {"checkout": None, "build": None, "package": T()}, "vars": k0(), "psandbox": {"paths": ["/bin"], "environment": {"SBV": "x"}},
                               "depends": ([{"name": names[-1]}] if rnd.random() < 0.5 and not m["recipes"][names[-1]].get("multi") else [])}
        m["recipes"][root]["depends"].insert(0, {"name": "sbx", "use": ["sandbox"], "forward": True})
    m["_shape"] = shape
    return m


def reach(step, out, seen_pkgs):
    """independent walk: all valid steps reachable through arguments, tools and sandbox"""
    from bob.cmds.jenkins.intermediate import getJenkinsVariantId
    key = (getJenkinsVariantId(step), step.getLabel())
    if key in out:
        return
    out[key] = step
    for a in step.getArguments():
        if a.isValid():
            reach(a, out, seen_pkgs)
    for n, t in step.getTools().items():
        reach(t.getStep(), out, seen_pkgs)
    if step.getSandbox() is not None:
        reach(step.getSandbox().getStep(), out, seen_pkgs)


def _tgz_audit_and_tree(path, dest):
    """independent reader of a Jenkins artifact: audit record + extracted content/ tree"""
    import gzip, tarfile
    audit = None
    with tarfile.open(path, "r:*") as tf:
        for mem in tf:
            if mem.name == "meta/audit.json.gz":
                audit = json.loads(gzip.decompress(tf.extractfile(mem).read()))
        tf.extractall(dest, filter="tar")
    return audit, os.path.join(dest, "content")


def run_exec(case):
    """Build-node emulation: the exported job configurations are *executed* the way Jenkins would (upstream artifacts copied into the
    job workspace, the shell builder's `#!bob _jexec ... run` script run by the real bob, published artifacts archived) and every
    produced artifact is compared with a purely local release build of the same project (ids from the audit trail, content tree)."""
    import gzip, xml.etree.ElementTree as ET
    from lib import e2e, treecanon
    rnd = random.Random(case["seed"])
    counters = dict.fromkeys(REQUIRED_COUNTERS, 0)
    viol, sigs = [], set()
    feats = rnd.sample(["classes", "multi", "pdeps", "weak", "fwd", "tools", "menv", "if", "roots2", "checkoutscript"], rnd.randrange(2, 6)) + ["src", "tools"]
    m = bobapi.gen_valid_model(rnd, lambda: projgen.gen_model(rnd, rnd.randrange(4, 8), feats))
    if m is None:
        return result("trivial", counters=counters, note="no valid model")
    isolate = rnd.choice([None, None, ".*[135]$", ".*"])
    for name, r in m["recipes"].items():
        # import SCMs travel inside the job specification: half of them go to a sub-directory of the source workspace
        if r.get("src") and not r.get("scm") and rnd.random() < 0.5:
            r["scm"] = {"scm": "import", "url": "src/" + (r["src"] if isinstance(r["src"], str) else name.replace("/", "_")), "dir": rnd.choice(["sub", "a/b", "imp.d"]), "prune": True}
    with common.scratch("c20x") as base:
        P = os.path.join(base, "proj"); projgen.write_project(P, m)
        L = os.path.join(base, "local", "p"); projgen.write_project(L, m)
        roots = e2e.roots(m)
        ctx = {"roots": roots, "isolate": isolate, "features": sorted(set(feats))}
        rl = e2e.build(L, m, "build", extra=["--download", "no"])
        if rl.returncode != 0:
            return result("trivial", counters=counters, note="local release build failed: " + rl.tail(300))
        dl, _ = e2e.dists(L, m, "build")
        local = {}
        for pkg, dist in dl.items():
            ap = os.path.join(os.path.dirname(dist), "audit.json.gz")
            if os.path.exists(ap):
                a = json.loads(gzip.decompress(open(ap, "rb").read()))["artifact"]
                local.setdefault(a["variant-id"], {"pkg": pkg, "dist": dist, "audit": a})
        args = ["jenkins", "add", "local", "http://localhost:1/"] + [x for r in roots for x in ("-r", r)] + projgen.define_args(m)
        if isolate:
            args += ["-o", "jobs.isolate=" + isolate]
        r = common.bob(args, cwd=P)
        if r.returncode != 0:
            return result("trivial", counters=counters, note="jenkins add refused: " + r.tail(300))
        exp = os.path.join(base, "export"); os.makedirs(exp)
        r = common.bob(["jenkins", "export", "local", exp], cwd=P)
        if r.returncode != 0:
            if "cyclic" in (r.stdout + r.stderr).lower():
                return result("held", counters=counters, violations=[violation("job-graph-cyclic", dict(ctx, error=r.tail(300)))])
            return result("trivial", counters=counters, note="jenkins export refused: " + r.tail(300))
        jobs = {}
        for f in sorted(os.listdir(exp)):
            x = ET.parse(os.path.join(exp, f)).getroot()
            cps = [c for c in x.iter("hudson.plugins.copyartifact.CopyArtifact")] + [c for c in x.iter("buildStep") if c.get("class", "").endswith("CopyArtifact")]
            arts = x.find("publishers/hudson.tasks.ArtifactArchiver/artifacts").text or ""
            jobs[f[:-4]] = {"copies": [(c.find("project").text, c.find("filter").text) for c in cps],
                            "shells": [s_.find("command").text for s_ in x.iter("hudson.tasks.Shell")], "artifacts": [a for a in arts.split(",") if a]}
        counters["graphs"] += 1; counters["jobs"] += len(jobs)
        store = os.path.join(base, "jenkins-artifacts")
        done = []
        jenv = {"JENKINS_HOME": os.path.join(base, "jhome"), "BUILD_TAG": "verif", "NODE_NAME": "node1", "BUILD_URL": "http://localhost:1/job/x/1/"}
        while len(done) < len(jobs):
            ready = [n for n in sorted(jobs) if n not in done and all(p in done for p, _ in jobs[n]["copies"])]
            if not ready:
                viol.append(violation("job-graph-cyclic", dict(ctx, stuck=sorted(set(jobs) - set(done))[:6], executed=True)))
                break
            n = ready[rnd.randrange(len(ready))]
            ws = os.path.join(base, "node", n); os.makedirs(ws)
            ok = True
            for p, f in jobs[n]["copies"]:
                src = os.path.join(store, p, f)
                if not os.path.exists(src):
                    viol.append(violation("job-copies-artifact-its-upstream-job-does-not-publish", dict(ctx, job=n, upstream=p, file=f))); ok = False; break
                shutil.copy(src, os.path.join(ws, f)); counters["node_copied_upstream_artifacts"] += 1
            for i, sh in enumerate(jobs[n]["shells"] if ok else []):
                first = sh.split("\n", 1)[0]
                if not first.startswith("#!bob "):
                    continue
                spec = os.path.join(base, "spec-%d-%d" % (len(done), i)); open(spec, "w").write(sh)
                r = common.bob(first[len("#!bob "):].split() + [spec], cwd=ws, timeout=900, env=jenv)
                if r.timed_out:
                    return result("inconclusive", counters=counters, note="job execution timed out")
                if r.returncode != 0:
                    viol.append(violation("job-execution-fails-on-build-node", dict(ctx, job=n, output=r.tail(500)))); ok = False; break
            if not ok:
                break
            counters["node_jobs_executed"] += 1
            os.makedirs(os.path.join(store, n))
            for a in jobs[n]["artifacts"]:
                if not os.path.exists(os.path.join(ws, a)):
                    viol.append(violation("job-does-not-produce-the-artifact-it-publishes", dict(ctx, job=n, file=a))); ok = False; break
                shutil.copy(os.path.join(ws, a), os.path.join(store, n, a))
            if not ok:
                break
            done.append(n)
        if not viol:
            seen = {}
            for n in done:
                for a in sorted(os.listdir(os.path.join(store, n))):
                    if not a.endswith(".tgz"):
                        continue
                    audit, tree = _tgz_audit_and_tree(os.path.join(store, n, a), os.path.join(base, "x", n, a))
                    art = audit["artifact"]
                    bidfile = open(os.path.join(store, n, a[:-4] + ".buildid"), "rb").read().hex()
                    vid = art["variant-id"]
                    if vid in seen and seen[vid] != n:
                        viol.append(violation("package-built-by-several-jobs", dict(ctx, package=art["meta"]["package"], jobs=[seen[vid], n], executed=True)))
                    seen[vid] = n
                    lc = local.get(vid)
                    if lc is None:
                        continue            # variant not built locally (Jenkins builds every reachable package)
                    counters["node_artifacts_compared"] += 1; counters["packages_checked"] += 1
                    bad = {}
                    if art["build-id"] != lc["audit"]["build-id"]:
                        bad["build-id"] = [art["build-id"], lc["audit"]["build-id"]]
                    if bidfile != art["build-id"]:
                        bad["published .buildid file"] = [bidfile, art["build-id"]]
                    if art["result-hash"] != lc["audit"]["result-hash"]:
                        bad["result-hash"] = [art["result-hash"], lc["audit"]["result-hash"]]
                    if treecanon.canon(tree) != treecanon.canon(lc["dist"]):
                        bad["content"] = treecanon.diff(tree, lc["dist"], 4)
                    for k in ("recipe", "step"):
                        if art["meta"].get(k) != lc["audit"]["meta"].get(k):
                            bad["meta." + k] = [art["meta"].get(k), lc["audit"]["meta"].get(k)]
                    if bad:
                        viol.append(violation("build-node-result-differs-from-originating-project", dict(ctx, job=n, package=lc["pkg"], fields=sorted(bad), detail={k: bad[k] for k in sorted(bad)[:3]})))
            missing = sorted(lc["pkg"] for v, lc in local.items() if v not in seen)
            if missing:
                viol.append(violation("package-built-by-no-job", dict(ctx, packages=missing[:5], executed=True)))
            if len(jobs) >= 2 and counters["node_artifacts_compared"]:
                sigs.add("exec|jobs%d|iso=%s|%s" % (min(len(jobs), 8), bool(isolate), ",".join(sorted(set(feats) & {"multi", "pdeps", "fwd", "checkoutscript", "roots2"}))))
    return result("held", sigs=sorted(sigs), counters=counters, violations=viol[:4],
                  sample={"exec": True, "jobs": {n: sorted({p for p, _ in j["copies"]}) for n, j in list(jobs.items())[:8]}, "order": done[:8]})


def run_case(case):
    if case.get("exec"):
        return run_exec(case)
    common.repo_path_setup()
    from bob.errors import BobError
    from bob.state import BobState, JenkinsConfig
    from bob.cmds.jenkins.jenkins import genJenkinsJobs, genJenkinsBuildOrder
    from bob.cmds.jenkins.intermediate import getJenkinsVariantId, PartialIR
    from bob.cmds.build.build import ExecutableStep, LazyIR
    from bob.input import RecipeSet
    rnd = random.Random(case["seed"])
    counters = dict.fromkeys(REQUIRED_COUNTERS, 0)
    viol, sigs = [], set()
    if case.get("fold"):
        # dedicated input for the known naming defect: two recipes whose names differ only in case, one depending on the other
        k0 = lambda: {k: [] for k in projgen.KINDS}
        T = lambda: projgen.new_tok(rnd)
        mk = lambda deps, root=False: {"root": root, "tok": {"checkout": None, "build": T(), "package": T()}, "vars": k0(), "weak": k0(), "tools": k0(), "toolsWeak": k0(),
                                       "depends": [{"name": d} for d in deps]}
        model = {"recipes": {"root": mk(["Lib", "lib"], True), "Lib": mk(["lib"]), "lib": mk([])}, "classes": {}, "sources": {}, "defines": {}, "default": {}, "_shape": "case-fold"}
    else:
        def gen():
            m = cycle_prone_model(rnd)
            # names that differ only in case / sanitised characters are the subject of the dedicated `fold` case, not of the random ones
            seen = set()
            for n in list(m["recipes"]):
                k = n.lower().replace("+", "_").replace(".", "_")
                if k in seen:
                    return None
                seen.add(k)
            return m
        model = None
        for _ in range(6):
            model = bobapi.gen_valid_model(rnd, lambda: gen() or cycle_prone_model(random.Random(0)))
            if model is not None and len({n.lower().replace("+", "_").replace(".", "_") for n in model["recipes"]}) == len(model["recipes"]):
                break
            model = None
    if model is None:
        return result("trivial", counters=counters, note="no valid model")
    lower = {}
    for n in projgen.reachable(model):
        lower.setdefault(n.lower().replace("+", "_").replace(".", "_"), set()).add(n)
    folding = sorted(tuple(sorted(v)) for v in lower.values() if len(v) > 1)
    sample = None
    with common.scratch("c20", root="/dev/shm/bobverif" if os.path.isdir("/dev/shm") else None) as base:
        d = os.path.join(base, "p"); projgen.write_project(d, {k: v for k, v in model.items() if not k.startswith("_")})
        old = os.getcwd(); os.chdir(d)
        try:
            from bob.state import finalize
            for variant in range(2):
                sandbox = (model["_shape"] == "sandbox") and variant == 0
                isolate = rnd.choice([None, None, ".*-1$", "^x", ".*"])
                cfg = JenkinsConfig("http://localhost:1/")
                cfg.roots = projgen.e2e_roots(model) if hasattr(projgen, "e2e_roots") else [n for n, r in model["recipes"].items() if r.get("root") and not r.get("multi")]
                cfg.sandbox = "yes" if sandbox else "no"
                if isolate:
                    cfg.setOption("jobs.isolate", isolate, lambda m_: None)
                name = "j%d" % variant
                BobState().addJenkins(name, cfg)
                ctx = {"shape": model["_shape"], "isolate": isolate, "sandbox": sandbox, "roots": cfg.roots, "case_folding_names": folding}
                recipes = RecipeSet()
                recipes.defineHook("jenkinsNameFormatter", __import__("bob.cmds.jenkins.jenkins", fromlist=["x"]).jenkinsNameFormatter)
                try:
                    jobs = genJenkinsJobs(recipes, name)
                    order = genJenkinsBuildOrder(jobs)
                except BobError as e:
                    msg = str(e)
                    if "cyclic" in msg.lower():
                        viol.append(violation("job-graph-cyclic" if not case.get("fold") else "job-names-fold-to-one-internal-name", dict(ctx, error=msg[:300])))
                    else:
                        counters["refused_by_bob"] = counters.get("refused_by_bob", 0) + 1
                    continue
                except KeyError as e:
                    viol.append(violation("job-generation-internal-exception" if not case.get("fold") else "job-names-fold-to-one-internal-name", dict(ctx, error="KeyError " + str(e)[:200])))
                    continue
                except Exception as e:
                    viol.append(violation("job-generation-internal-exception", dict(ctx, error="%s: %s" % (type(e).__name__, str(e)[:300]))))
                    continue
                counters["graphs"] += 1
                counters["jobs"] += len(jobs)
                # 1. acyclic (independent toposort)
                up = {n: set(j.getUpstreamJobs()) for n, j in jobs.items()}
                missing = {u for us in up.values() for u in us} - set(jobs)
                if missing:
                    viol.append(violation("job-depends-on-nonexistent-job", dict(ctx, missing=sorted(missing)[:5])))
                indeg = {n: 0 for n in jobs}
                done, todo = set(), [n for n in jobs if not (up[n] & set(jobs))]
                while todo:
                    n = todo.pop(); done.add(n)
                    for m_ in jobs:
                        if m_ not in done and m_ not in todo and (up[m_] & set(jobs)) <= done:
                            todo.append(m_)
                if len(done) != len(jobs):
                    viol.append(violation("job-graph-cyclic", dict(ctx, stuck=sorted(set(jobs) - done)[:6])))
                # 2. completeness: every reachable package step is built by exactly one job
                built = {}
                for n, j in jobs.items():
                    for s in j.getPackageSteps():
                        built.setdefault(getJenkinsVariantId(s), []).append(n)
                    for s in list(j.getBuildSteps()) + list(j.getCheckoutSteps()):
                        pass
                allsteps = {}
                # re-derive the live graph exactly as genJenkinsJobs configured it: use the steps the jobs hold as entry points plus roots
                roots_live = [s for n, j in jobs.items() if j.isRoot() for s in j.getPackageSteps()]
                for s in roots_live:
                    reach(s, allsteps, set())
                for (vid, label), s in allsteps.items():
                    if label != "dist":
                        continue
                    counters["packages_checked"] += 1
                    owners = built.get(vid, [])
                    if len(set(owners)) != 1:
                        viol.append(violation("package-built-by-%s" % ("no-job" if not owners else "several-jobs"),
                                              dict(ctx, package="/".join(s.getPackage().getStack()), jobs=sorted(set(owners)))))
                        break
                # 3. dependencies between jobs
                owner = {vid: o[0] for vid, o in built.items()}
                for n, j in jobs.items():
                    own_steps = list(j.getPackageSteps()) + list(j.getBuildSteps()) + list(j.getCheckoutSteps())
                    for s in own_steps:
                        deps = [a for a in s.getArguments() if a.isValid()] + [t.getStep() for t in s.getTools().values()] + \
                               ([s.getSandbox().getStep()] if s.getSandbox() is not None else [])
                        for dp in deps:
                            if not dp.isPackageStep():
                                continue            # checkout/build steps of the own package
                            o = owner.get(getJenkinsVariantId(dp))
                            counters["job_dependency_edges_checked"] += 1
                            if o is None:
                                viol.append(violation("dependency-built-by-no-job", dict(ctx, job=n, dep="/".join(dp.getPackage().getStack()))))
                            elif o != n and o not in up[n]:
                                viol.append(violation("job-does-not-depend-on-job-of-its-dependency", dict(ctx, job=n, dep_job=o, dep="/".join(dp.getPackage().getStack()))))
                # 4. IR faithfulness
                cache_live, cache_ir = {}, {}
                live_by_vid = {}
                def weak_of(step):
                    rcp = step.getPackage().getRecipe()
                    return set(rcp.checkoutVarsWeak if step.isCheckoutStep() else rcp.buildVarsWeak if step.isBuildStep() else rcp.packageVarsWeak)
                def mk_bid(cache, is_ir):
                    async def bid(step):
                        if is_ir and getattr(step, "partial", False):
                            # dependency built by another job: on the build node its Build-Id comes from the transferred .buildid file
                            return live_by_vid[step.getVariantId()]
                        key = step.getVariantId() + step.getLabel().encode()
                        if key in cache:
                            return cache[key]
                        if step.isCheckoutStep():
                            import hashlib
                            r = hashlib.sha1(b"src" + step.getVariantId()).digest()
                        else:
                            async def calc(steps):
                                return [await bid(s) for s in steps]
                            r = await step.getDigestCoro(calc, fingerprint=b"", platform=b"", relaxTools=True)
                        cache[key] = r
                        if not is_ir:
                            live_by_vid[step.getVariantId()] = r
                        return r
                    return bid
                bid_live, bid_ir = mk_bid(cache_live, False), mk_bid(cache_ir, True)
                for (vid_, label_), s_ in allsteps.items():
                    if label_ == "dist":
                        asyncio.run(bid_live(ExecutableStep.fromStep(s_, LazyIR)))
                for n, j in jobs.items():
                    spec = j.dumpJobSpec()
                    ir = PartialIR.fromData(json.loads(lzma.decompress(base64.a85decode("".join(spec.split())))))
                    live = {getJenkinsVariantId(s).hex(): s for s in j.getPackageSteps()}
                    irroots = ir.getRoots()
                    if sorted(live) != sorted(ir.roots):
                        viol.append(violation("job-spec-roots-differ-from-job-packages", dict(ctx, job=n))); continue
                    for irs in irroots:
                        # walk package -> build -> checkout of the own package
                        lv = live[getJenkinsVariantId(irs).hex()] if irs.getSandbox() is None or True else None
                        pairs = [(irs, lv)]
                        lp = lv.getPackage(); ip = irs.getPackage()
                        if lp.getBuildStep().isValid():
                            pairs.append((ip.getBuildStep(), lp.getBuildStep()))
                        if lp.getCheckoutStep().isValid():
                            pairs.append((ip.getCheckoutStep(), lp.getCheckoutStep()))
                        for a, b in pairs:
                            counters["ir_steps_compared"] += 1
                            es = ExecutableStep.fromStep(b, LazyIR)
                            fields = {
                                "variant-id": (a.getVariantId(), b.getVariantId()),
                                "build-id": (asyncio.run(bid_ir(a)), asyncio.run(bid_live(es))),
                                "main-script": (a.getMainScript(), b.getMainScript()),
                                "setup-script": (a.getSetupScript(), b.getSetupScript()),
                                "digest-script": (a.getDigestScript(), b.getDigestScript()),
                                # weak variables do not separate packages: instances with one Variant-Id may differ in them and the job spec
                                # carries one representative - only the strong part of the environment is compared
                                "env": (sorted((k_, v_) for k_, v_ in a.getEnv().items() if k_ not in weak_of(b)), sorted((k_, v_) for k_, v_ in b.getEnv().items() if k_ not in weak_of(b))),
                                "workspace": (a.getWorkspacePath(), b.getWorkspacePath()),
                                "tools": (sorted((k, t.getStep().getVariantId().hex(), t.getPath(), list(t.getLibs())) for k, t in a.getTools().items()),
                                          sorted((k, t.getStep().getVariantId().hex(), t.getPath(), list(t.getLibs())) for k, t in b.getTools().items())),
                                "args": ([x.getVariantId().hex() for x in a.getArguments() if x.isValid()], [x.getVariantId().hex() for x in b.getArguments() if x.isValid()]),
                                "arg-workspaces": ([x.getWorkspacePath() for x in a.getArguments() if x.isValid()], [x.getWorkspacePath() for x in b.getArguments() if x.isValid()]),
                                "sandbox": (a.getSandbox() is not None and a.getSandbox().getStep().getVariantId().hex(), b.getSandbox() is not None and b.getSandbox().getStep().getVariantId().hex()),
                            }
                            bad = [k for k, (x, yv) in fields.items() if x != yv]
                            if bad:
                                viol.append(violation("job-spec-differs-from-live-step", dict(ctx, job=n, step="/".join(b.getPackage().getStack()) + ":" + b.getLabel(), fields=bad,
                                                                                                detail={k: [str(fields[k][0])[:160], str(fields[k][1])[:160]] for k in bad[:3]})))
                                break
                nvar = {}
                for n_, r in projgen.reachable(model).items():
                    pass
                perrecipe = {}
                for (vid, label), s in allsteps.items():
                    if label == "dist":
                        perrecipe.setdefault(s.getPackage().getRecipe().getName(), set()).add(vid)
                mv = max([len(v) for v in perrecipe.values()] or [0])
                if mv > 1:
                    counters["multi_variant_recipes"] += 1
                if len(jobs) >= 2:
                    sigs.add("jobs%d|var%d|iso=%s|sbx=%s|%s" % (min(len(jobs), 12), min(mv, 4), bool(isolate), sandbox, model["_shape"]))
                if sample is None:
                    sample = {"shape": model["_shape"], "jobs": {n: sorted(up[n]) for n in list(jobs)[:8]}, "order": order[:8]}
            finalize()
        finally:
            try:
                from bob.state import finalize as f2
                f2()
            except Exception:
                pass
            os.chdir(old)
    seen = {}
    for v in viol:
        seen.setdefault(v["mechanism"], []).append(v)
    viol = [x for vs in seen.values() for x in vs[:2]]
    return result("held", sigs=sorted(sigs), counters=counters, violations=viol[:5], sample=sample)


LEVEL_TEXT = ("Exploration: the real job generator runs on generated, cycle-prone recipe graphs; job graph structure is judged by an independent "
              "toposort / reachability walk and every job specification is decoded like the build node does and compared step by step (ids, "
              "scripts, environment, tools, arguments, workspaces) with the live objects; a build-node emulation executes the exported job configurations "
              "with the real `bob _jexec run` (upstream artifacts copied as the CopyArtifact steps say, published artifacts archived) and compares "
              "every artifact with a local release build (build-id, result-hash, content, published .buildid).")
LEVEL_NOTE = "No Jenkins server is involved (job XML upload is out of reach): the harness plays the server for exported job configurations (artifacts.copy=jenkins, import SCMs; Jenkins SCM plugins are out of reach)."
TECHNIQUE = "structural invariant monitor on genJenkinsJobs output + IR round-trip differential (decoded job spec vs live Step objects) + differential execution monitor (jobs executed by the real bob _jexec on an emulated build node vs local release build)"
