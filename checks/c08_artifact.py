"""C08 Artifact packing is lossless, corruption is rejected, extraction is confined.

Case kinds
  fidelity   generated trees go through the real LocalArchive upload and download code; treecanon and Bob's own
             hashDirectory of source and result must agree, audit bytes must be identical.
  corrupt    a real one-package project uploads its artifact; truncations, bit flips and structural corruptions of the
             artifact are then fed through the REAL builder (`bob dev --download forced`, twice in a row); verdict:
             exit != 0, or the resulting dist tree and audit are exactly the original.
  hostile    a grammar of hostile tar members is extracted with the real TarHelper._extract into a jail whose
             surroundings are snapshotted before and after.
"""
import gzip, hashlib, io, json, os, random, shutil, stat, sys, tarfile

if __name__ == "__main__":
    sys.path.insert(0, os.path.dirname(os.path.dirname(os.path.abspath(__file__))))
from lib import common, treecanon
from lib.common import result, violation

ID = "C08"
LEVEL = "exploration"
BATCH = 1
CASE_TIMEOUT = 2400
MIN_NONTRIVIAL = 60
REQUIRED_COUNTERS = ["fidelity_trees", "corruptions_fed_to_builder", "corruptions_rejected", "hostile_archives", "hostile_members", "hostile_rejected"]
RULE = ("fidelity: seeded trees (empty/large files, empty dirs, relative/absolute/dangling symlinks, hard links, setuid/setgid/sticky bits, "
        "unicode/space/quote/$/newline names, >100 and >255 byte paths); corrupt: truncation lengths, bit flips, wrong pax version, missing "
        "audit, unknown top-level member, content/audit mismatch, each through two consecutive builder runs; hostile: 1-4 hostile members "
        "(.., absolute, symlink-then-write, escaping hard link, device/fifo, duplicates, audit as link) mixed with benign ones. "
        "distinct_nontrivial = distinct tree shapes + distinct (corruption kind, position class, builder outcome) + distinct hostile member combinations.")
ASSUMPTIONS = ["runs as root: permission failures cannot mask an escaping write", "file kinds limited to those the statement lists (no sockets)",
               "a corruption that leaves tree and audit exactly equal to the original (e.g. a flipped bit in an unchecked gzip header field) is harmless by the verdict rule",
               "a foreign but self-consistent artifact stored under the build-id is out of scope (C07)"]


def plan(tier, seed):
    cases = []
    nf, nc, nh = (24, 6, 24) if tier == "quick" else (800, 60, 600)
    for i in range(nf):
        cases.append({"kind": "fidelity", "seed": common.subseed(seed, "c08f", i), "trees": 6})
    for i in range(nc):
        cases.append({"kind": "corrupt", "seed": common.subseed(seed, "c08c", i), "n": 9 if tier == "quick" else 20,
                      "all_truncations": tier != "quick" and i < 1})
    for i in range(nh):
        cases.append({"kind": "hostile", "seed": common.subseed(seed, "c08h", i), "archives": 10 if tier == "quick" else 25})
    return cases


def _bob():
    common.repo_path_setup()
    import bob.archive, bob.utils
    return bob.archive, bob.utils


# ------------------------------------------------------------------ fidelity

NAMES = ["a", "file.txt", "with space", "quo'te", 'dq"uote', "dol$lar", "new\nline", "äöü-€", "\U0001f600", "tab\there",
         "-dash", "back\\slash", "semi;colon", "star*", "x" * 120, "y" * 200, ".hidden", "a.b.c", "UPPER", "#hash", "~tilde", "%percent"]
MODES_F = [0o644, 0o755, 0o600, 0o444, 0o4755, 0o2755, 0o1644, 0o6711, 0o640]
MODES_D = [0o755, 0o700, 0o1777, 0o2775, 0o750, 0o711]


def gen_tree(rnd, root):
    """returns a shape signature"""
    os.makedirs(root)
    dirs = [root]
    files = []
    shape = set()
    for _ in range(rnd.randrange(2, 14)):
        d = rnd.choice(dirs)
        name = rnd.choice(NAMES)
        p = os.path.join(d, name)
        if os.path.lexists(p) or len(os.path.relpath(p, root).encode()) > 900:
            continue
        k = rnd.random()
        if k < 0.25:
            os.mkdir(p); dirs.append(p); shape.add("dir")
            if len(name.encode()) > 100: shape.add("long-name")
        elif k < 0.60:
            size = rnd.choice([0, 0, 1, 100, 511, 512, 513, 4096, 70000, 1048577])
            with open(p, "wb") as f:
                f.write(os.urandom(size) if size < 100000 else b"z" * size)
            files.append(p); shape.add("file%d" % min(size, 2))
            if size > 100000: shape.add("large")
        elif k < 0.80:
            t = rnd.choice(["a", "../x", "/absolute/target", "dangling", ".", "with space", "x" * 150, "ä"])
            os.symlink(t, p); shape.add("symlink:" + ("abs" if t.startswith("/") else "long" if len(t) > 100 else "rel"))
        elif files:
            os.link(rnd.choice(files), p); files.append(p); shape.add("hardlink")
        if len(os.path.relpath(p, root).encode()) > 255:
            shape.add("path>255")
    # very deep path
    if rnd.random() < 0.3:
        p = root
        for i in range(rnd.randrange(6, 12)):
            p = os.path.join(p, "deep-directory-name-%02d-%s" % (i, "d" * 20))
        os.makedirs(p); dirs.append(p)
        open(os.path.join(p, "leaf"), "w").write("leaf"); files.append(os.path.join(p, "leaf")); shape.add("path>255")
    for f in set(files):
        os.chmod(f, rnd.choice(MODES_F) | 0o400)
    for d in dirs[1:]:
        os.chmod(d, rnd.choice(MODES_D) | 0o700)
    if len(dirs) > 1 and not os.listdir(dirs[-1]):
        shape.add("empty-dir")
    return sorted(shape)


def run_fidelity(case):
    ba, bu = _bob()
    rnd = random.Random(case["seed"])
    counters = dict.fromkeys(REQUIRED_COUNTERS, 0)
    viol, sigs = [], set()
    sample = None
    with common.scratch("c08") as base:
        for ti in range(case["trees"]):
            w = os.path.join(base, "t%d" % ti)
            src = os.path.join(w, "src", "workspace")
            os.makedirs(os.path.dirname(src))
            shape = gen_tree(rnd, src)
            audit = os.path.join(w, "src", "audit.json.gz")
            audit_bytes = gzip.compress(json.dumps({"artifact": {"x": rnd.random()}, "references": []}).encode())
            open(audit, "wb").write(audit_bytes)
            arch = ba.LocalArchive({"path": os.path.join(w, "arch"), "flags": ["upload", "download"]})
            arch.wantUploadLocal(True); arch.wantDownloadLocal(True)
            bid = hashlib.sha1(b"%d" % ti).digest()
            ctx = {"shape": shape, "tree": treecanon.describe(src, 14)}
            try:
                res = arch._uploadPackage(bid, ".tgz", audit, src)
                if res[0] != "ok":
                    viol.append(violation("upload-of-tree-failed", dict(ctx, res=res[0]))); continue
                dst = os.path.join(w, "dst", "workspace"); os.makedirs(os.path.dirname(dst))
                daudit = os.path.join(w, "dst", "audit.json.gz")
                ok, msg, _ = arch._downloadPackage(bid, ".tgz", daudit, dst, [], dst)
            except Exception as e:
                viol.append(violation("pack-or-extract-raised", dict(ctx, exc="%s: %s" % (type(e).__name__, str(e)[:300])))); continue
            counters["fidelity_trees"] += 1
            sigs.add("tree|" + ",".join(shape))
            if not ok:
                viol.append(violation("download-of-own-artifact-failed", dict(ctx, msg=msg))); continue
            if open(daudit, "rb").read() != audit_bytes:
                viol.append(violation("audit-bytes-changed", ctx))
            if treecanon.canon(src) != treecanon.canon(dst):
                viol.append(violation("extracted-tree-differs", dict(ctx, diff=treecanon.diff(src, dst))))
            elif bu.hashDirectory(src) != bu.hashDirectory(dst):
                viol.append(violation("extracted-tree-hash-differs", ctx))
            if sample is None:
                sample = {"kind": "fidelity", "shape": shape, "entries": treecanon.describe(src, 8)}
            common.rmtree(w)
    return result("held", sigs=sorted(sigs), counters=counters, violations=viol[:5], sample=sample)


# ------------------------------------------------------------------ corruption through the real builder

RECIPE = """root: True
buildScript: |
  mkdir -p sub/empty "sp ace"
  echo hello-%(tok)s > sub/file.txt
  ln -s file.txt sub/link
  head -c %(size)d /dev/zero | tr '\\0' 'q' > big.bin
  echo x > "sp ace/f"
  chmod 750 sub
packageScript: |
  cp -a "$1/." .
"""


def make_project(d, arch, tok, size):
    os.makedirs(os.path.join(d, "recipes"))
    open(os.path.join(d, "config.yaml"), "w").write('bobMinimumVersion: "1.0"\n')
    open(os.path.join(d, "default.yaml"), "w").write("archive:\n  backend: file\n  path: \"%s\"\n" % arch)
    open(os.path.join(d, "recipes", "root.yaml"), "w").write(RECIPE % {"tok": tok, "size": size})


def dist_dir(proj):
    r = common.bob(["query-path", "-f", "{dist}", "--develop", "root"], cwd=proj, timeout=120)
    p = r.stdout.strip().splitlines()
    return os.path.join(proj, p[0]) if p else None


def rebuild_tar(data, fn):
    """decode artifact, let fn(members list of (TarInfo, bytes|None), pax) modify it, re-encode"""
    raw = gzip.decompress(data)
    with tarfile.open(fileobj=io.BytesIO(raw)) as tin:
        pax = dict(tin.pax_headers)
        members = [(m, tin.extractfile(m).read() if m.isfile() else None) for m in tin.getmembers()]
    members, pax = fn(members, pax)
    bio = io.BytesIO()
    with tarfile.open(fileobj=bio, mode="w", format=tarfile.PAX_FORMAT, pax_headers=pax) as tout:
        for m, content in members:
            tout.addfile(m, io.BytesIO(content) if content is not None else None)
    return gzip.compress(bio.getvalue())


def corruptions(rnd, data, n, all_trunc):
    out = []
    L = len(data)
    if all_trunc:
        # every cut in the gzip header / trailer regions, a stride through the body (one bob download per cut)
        cuts = sorted(set(list(range(0, min(L, 24))) + list(range(max(0, L - 24), L)) + list(range(0, L, max(1, L // 70)))))
        for cut in cuts:
            out.append(("truncate", "all", data[:cut]))
        return out
    cuts = sorted(set([0, 1, 9, 10, 11, L // 4, L // 2, L - 9, L - 8, L - 5, L - 4, L - 1] + [rnd.randrange(0, L) for _ in range(n // 3)]))
    for cut in cuts:
        if 0 <= cut < L:
            out.append(("truncate", "head" if cut < 20 else "tail" if cut >= L - 8 else "body", data[:cut]))
    for _ in range(n // 2):
        i = rnd.randrange(L)
        out.append(("bitflip", "header" if i < 10 else "trailer" if i >= L - 8 else "body", data[:i] + bytes([data[i] ^ (1 << rnd.randrange(8))]) + data[i + 1:]))
    out.append(("garbage-tail", "tail", data + b"garbage" * 3))
    out.append(("zero-fill", "body", data[:L // 2] + b"\0" * (L - L // 2)))
    out.append(("empty", "all", b""))
    out.append(("not-gzip", "all", gzip.decompress(data)))
    def vsn(m, p): p = dict(p); p["bob-archive-vsn"] = "2"; return m, p
    def novsn(m, p): return m, {}
    def noaudit(m, p): return [x for x in m if x[0].name != "meta/audit.json.gz"], p
    def unknown(m, p):
        ti = tarfile.TarInfo("evil/top"); ti.size = 1
        return m + [(ti, b"x")], p
    def payload(m, p):
        res = []
        for ti, c in m:
            if ti.name == "content/sub/file.txt":
                c = b"tampered\n"; ti.size = len(c)
            res.append((ti, c))
        return res, p
    def mode(m, p):
        res = []
        for ti, c in m:
            if ti.name == "content/big.bin":
                ti.mode = 0o777
            res.append((ti, c))
        return res, p
    def extra(m, p):
        ti = tarfile.TarInfo("content/injected"); ti.size = 4
        return m + [(ti, b"evil")], p
    def dropfile(m, p): return [x for x in m if x[0].name != "content/sp ace/f"], p
    def auditswap(m, p):
        res = []
        for ti, c in m:
            if ti.name == "meta/audit.json.gz":
                j = json.loads(gzip.decompress(c)); j["artifact"]["result-hash"] = "00" * 20
                c = gzip.compress(json.dumps(j).encode()); ti.size = len(c)
            res.append((ti, c))
        return res, p
    def auditgarbage(m, p):
        res = []
        for ti, c in m:
            if ti.name == "meta/audit.json.gz":
                c = b"not gzip at all"; ti.size = len(c)
            res.append((ti, c))
        return res, p
    for name, fn in (("wrong-pax-version", vsn), ("no-pax-version", novsn), ("missing-audit", noaudit), ("unknown-top-level", unknown),
                     ("content-tampered", payload), ("mode-tampered", mode), ("extra-content-file", extra), ("content-file-dropped", dropfile),
                     ("audit-result-hash-wrong", auditswap), ("audit-garbage", auditgarbage)):
        out.append((name, "structure", rebuild_tar(data, fn)))
    return out


def run_corrupt(case):
    rnd = random.Random(case["seed"])
    counters = dict.fromkeys(REQUIRED_COUNTERS, 0)
    viol, sigs = [], set()
    with common.scratch("c08") as base:
        arch = os.path.join(base, "arch")
        up = os.path.join(base, "up"); make_project(up, arch, "t%d" % (case["seed"] % 1000), rnd.choice([10, 5000, 70000]))
        r = common.bob(["dev", "root", "--upload"], cwd=up, timeout=300)
        arts = [os.path.join(p, f) for p, _, fs in os.walk(arch) for f in fs if f.endswith("-1.tgz")]
        if r.returncode != 0 or len(arts) != 1:
            return result("inconclusive", note="uploader build failed: " + r.tail())
        art = arts[0]
        good = open(art, "rb").read()
        ref_dist = dist_dir(up)
        ref_canon = treecanon.canon(ref_dist)
        ref_audit = gzip.decompress(open(os.path.join(ref_dist, "..", "audit.json.gz"), "rb").read())
        # sanity: the intact artifact downloads
        dl = os.path.join(base, "dl0"); make_project(dl, arch, "t%d" % (case["seed"] % 1000), 1)
        shutil.copy(os.path.join(up, "recipes", "root.yaml"), os.path.join(dl, "recipes", "root.yaml"))
        r = common.bob(["dev", "root", "--download", "forced"], cwd=dl, timeout=300)
        if r.returncode != 0 or treecanon.canon(dist_dir(dl)) != ref_canon:
            return result("inconclusive", note="intact artifact did not download: " + r.tail())
        shutil.rmtree(dl)
        clist = corruptions(rnd, good, case["n"], case.get("all_truncations"))
        for ci, (kind, pos, data) in enumerate(clist):
            os.chmod(art, 0o644)
            open(art, "wb").write(data)
            dl = os.path.join(base, "dl"); shutil.rmtree(dl, ignore_errors=True)
            make_project(dl, arch, "x", 1)
            shutil.copy(os.path.join(up, "recipes", "root.yaml"), os.path.join(dl, "recipes", "root.yaml"))
            counters["corruptions_fed_to_builder"] += 1
            outcomes = []
            for attempt in (1, 2):
                r = common.bob(["dev", "root", "--download", "forced"], cwd=dl, timeout=300)
                d = dist_dir(dl)
                ctx = {"corruption": kind, "position": pos, "size": len(data), "attempt": attempt, "rc": r.returncode, "stderr": (r.stderr or "")[-300:]}
                if r.timed_out:
                    outcomes.append("timeout"); break
                if r.returncode != 0:
                    # also an "internal exception" exit (e.g. zlib.error out of the audit loader) is a failed download: the
                    # property only demands that the artifact is not used.  Counted separately, not judged.
                    if r.returncode == 3:
                        counters["rejected_by_internal_exception"] = counters.get("rejected_by_internal_exception", 0) + 1
                    outcomes.append("rejected")
                    continue
                # accepted: must be exactly the original
                same_tree = d is not None and os.path.isdir(d) and treecanon.canon(d) == ref_canon
                try:
                    same_audit = gzip.decompress(open(os.path.join(d, "..", "audit.json.gz"), "rb").read()) == ref_audit
                except Exception:
                    same_audit = False
                if same_tree and same_audit:
                    outcomes.append("harmless")
                else:
                    outcomes.append("ACCEPTED")
                    viol.append(violation("corrupt-artifact-accepted-as-package-result" + ("-on-second-run" if attempt == 2 else ""),
                                          dict(ctx, same_tree=same_tree, same_audit=same_audit, diff=treecanon.diff(ref_dist, d) if d and os.path.isdir(d) else None)))
                break
            if outcomes and outcomes[0] == "rejected":
                counters["corruptions_rejected"] += 1
            sigs.add("corrupt|%s|%s|%s" % (kind, pos, "/".join(outcomes)))
    return result("held", sigs=sorted(sigs), counters=counters, violations=viol[:6],
                  sample={"kind": "corrupt", "artifact_size": len(good), "corruptions": len(clist), "examples": sorted(sigs)[:6]})


# ------------------------------------------------------------------ hostile members

def snapshot(root, exclude):
    out = {}
    for p, ds, fs in os.walk(root):
        ds[:] = [d for d in ds if os.path.join(p, d) not in exclude]
        for n in ds + fs:
            q = os.path.join(p, n)
            if q in exclude:
                continue
            st = os.lstat(q)
            if stat.S_ISLNK(st.st_mode):
                out[q] = ("l", os.readlink(q))
            elif stat.S_ISREG(st.st_mode):
                out[q] = ("f", stat.S_IMODE(st.st_mode), st.st_nlink, hashlib.sha1(open(q, "rb").read()).hexdigest())
            elif stat.S_ISDIR(st.st_mode):
                out[q] = ("d", stat.S_IMODE(st.st_mode))
            else:
                out[q] = ("o", st.st_mode)
    return out


def hostile_members(rnd, jail):
    """returns list of (label, [TarInfo+data ...])"""
    outside = os.path.join(jail, "outside")
    def reg(name, data=b"EVIL"):
        ti = tarfile.TarInfo(name); ti.size = len(data); ti.mode = 0o644
        return (ti, data)
    def sym(name, target):
        ti = tarfile.TarInfo(name); ti.type = tarfile.SYMTYPE; ti.linkname = target
        return (ti, None)
    def lnk(name, target):
        ti = tarfile.TarInfo(name); ti.type = tarfile.LNKTYPE; ti.linkname = target
        return (ti, None)
    def dev(name, t):
        ti = tarfile.TarInfo(name); ti.type = t; ti.devmajor = 1; ti.devminor = 3
        return (ti, None)
    up = lambda n: "/".join([".."] * n)
    g = [
        ("dotdot", [reg("content/../escaped1")]),
        ("dotdot-deep", [reg("content/a/../../../outside/escaped2")]),
        ("dotdot-sibling-prefix", [reg("content/../workspace-evil/pwned")]),
        ("dotdot-sibling-prefix2", [reg("content/../workspaceX")]),
        ("absolute", [reg(os.path.join(outside, "abs-escape"))]),
        ("absolute-in-content", [reg("content/" + os.path.join(outside, "abs-escape2"))]),
        ("symlink-then-write", [sym("content/s1", "../../outside"), reg("content/s1/via-symlink")]),
        ("symlink-abs-then-write", [sym("content/s2", outside), reg("content/s2/via-abs-symlink")]),
        ("symlink-chain-then-write", [sym("content/c1", "c2"), sym("content/c2", "../.."), reg("content/c1/outside/via-chain")]),
        ("symlink-dotdot-then-overwrite-victim", [sym("content/s3", "../../outside/victim"), reg("content/s3", b"OVERWRITTEN")]),
        ("hardlink-escape-then-write", [lnk("content/h1", "content/../../outside/victim"), reg("content/h1", b"OVERWRITTEN")]),
        ("hardlink-escape-chmod", [lnk("content/h2", "content/../../outside/victim")]),
        ("hardlink-abs", [lnk("content/h3", os.path.join(outside, "victim"))]),
        ("hardlink-name-escapes", [reg("content/real"), lnk("content/../escaped-link", "content/real")]),
        ("hardlink-through-symlink", [sym("content/d", "../../outside"), lnk("content/h4", "content/d/victim"), reg("content/h4", b"OVERWRITTEN")]),
        ("device", [dev("content/chr", tarfile.CHRTYPE), dev("content/../chr-out", tarfile.CHRTYPE)]),
        ("fifo", [dev("content/../fifo-out", tarfile.FIFOTYPE)]),
        ("dir-escape", [(lambda: (lambda ti: (setattr(ti, "type", tarfile.DIRTYPE), setattr(ti, "mode", 0o777), (ti, None))[2])(tarfile.TarInfo("content/../newdir")))()]),
        ("dir-chmod-outside", [(lambda: (lambda ti: (setattr(ti, "type", tarfile.DIRTYPE), setattr(ti, "mode", 0o000), (ti, None))[2])(tarfile.TarInfo("content/../../outside")))()]),
        ("duplicate-names", [reg("content/dup", b"one"), reg("content/dup", b"two"), sym("content/dup", "../../outside/victim"), reg("content/dup", b"OVERWRITTEN")]),
        ("audit-as-symlink", [sym("meta/audit.json.gz", "../outside/victim")]),
        ("audit-as-hardlink", [lnk("meta/audit.json.gz", "content/../../outside/victim")]),
        ("meta-dotdot", [reg("meta/../escaped-meta")]),
        ("unknown-top-level", [reg("other/file")]),
        ("dot-slash", [reg("./content/../../outside/dotslash")]),
        ("content-prefix-trick", [reg("content/../content-evil/x"), reg("contentX/y")]),
        ("long-dotdot", [reg("content/" + "d/" * 60 + up(62) + "/outside/long-escape")]),
        ("backslash", [reg("content/..\\..\\outside\\bs")]),
        ("nul-free-weird", [reg("content/․․/x"), reg("content/.. /x")]),
    ]
    return g


def run_hostile(case):
    ba, bu = _bob()
    rnd = random.Random(case["seed"])
    counters = dict.fromkeys(REQUIRED_COUNTERS, 0)
    viol, sigs = [], set()
    sample = None
    with common.scratch("c08") as base:
        for ai in range(case["archives"]):
            jail = os.path.join(base, "jail%d" % ai)
            ws = os.path.join(jail, "ws")
            os.makedirs(os.path.join(jail, "outside")); os.makedirs(ws)
            os.makedirs(os.path.join(ws, "workspace-evil"))
            open(os.path.join(jail, "outside", "victim"), "w").write("precious")
            os.chmod(os.path.join(jail, "outside", "victim"), 0o600)
            open(os.path.join(ws, "neighbour"), "w").write("neighbour")
            content, audit = os.path.join(ws, "workspace"), os.path.join(ws, "audit.json.gz")
            grammar = hostile_members(rnd, jail)
            picks = rnd.sample(grammar, rnd.randrange(1, 4))
            members = []
            benign_audit = gzip.compress(b'{"artifact":{},"references":[]}')
            def reg(name, data):
                ti = tarfile.TarInfo(name); ti.size = len(data); return (ti, data)
            pre = [reg("content/ok1", b"fine")]
            if rnd.random() < 0.7:
                pre.insert(0, reg("meta/audit.json.gz", benign_audit))
            hostile = [m for _, ms in picks for m in ms]
            if rnd.random() < 0.5:
                members = pre + hostile + [reg("content/ok2", b"fine")]
            else:
                members = hostile + pre
            bio = io.BytesIO()
            with tarfile.open(fileobj=bio, mode="w", format=rnd.choice([tarfile.PAX_FORMAT, tarfile.GNU_FORMAT]) if all(len(m[0].name) < 90 for m in members) else tarfile.PAX_FORMAT,
                              pax_headers={"bob-archive-vsn": "1"}) as t:
                for ti, data in members:
                    t.addfile(ti, io.BytesIO(data) if data is not None else None)
            blob = gzip.compress(bio.getvalue()) if rnd.random() < 0.8 else bio.getvalue()
            excl = {content, audit}
            before = snapshot(jail, excl)
            labels = sorted(l for l, _ in picks)
            outcome = "extracted"
            try:
                ba.TarHelper()._extract(io.BytesIO(blob), audit, content)
            except (ba.BuildError, tarfile.TarError, OSError) as e:
                outcome = "rejected:" + type(e).__name__
            except Exception as e:
                outcome = "raised:" + type(e).__name__
            after = snapshot(jail, excl)
            counters["hostile_archives"] += 1
            counters["hostile_members"] += len(hostile)
            if outcome != "extracted":
                counters["hostile_rejected"] += 1
            sigs.add("hostile|%s|%s" % ("+".join(labels), outcome.split(":")[0]))
            if before != after:
                changed = sorted(set(k for k in set(before) | set(after) if before.get(k) != after.get(k)))
                viol.append(violation("extraction-modified-path-outside-workspace",
                                      {"members": labels, "outcome": outcome, "changed": [(os.path.relpath(k, jail), before.get(k), after.get(k)) for k in changed[:5]]}))
            # the audit file itself must be a regular file (not a link to somewhere else)
            if os.path.lexists(audit) and not stat.S_ISREG(os.lstat(audit).st_mode):
                viol.append(violation("audit-file-is-not-a-regular-file", {"members": labels, "outcome": outcome}))
            if sample is None:
                sample = {"kind": "hostile", "members": [(m[0].name, m[0].type.decode() if isinstance(m[0].type, bytes) else str(m[0].type), m[0].linkname) for m in members], "outcome": outcome}
            common.rmtree(jail)
    return result("held", sigs=sorted(sigs), counters=counters, violations=viol[:6], sample=sample)


def run_case(case):
    return {"fidelity": run_fidelity, "corrupt": run_corrupt, "hostile": run_hostile}[case["kind"]](case)


LEVEL_TEXT = ("Exploration with three monitors: differential pack/extract fidelity against an independent tree serialisation and Bob's own "
              "hash; every generated corruption is judged through the real builder twice; every hostile archive is judged by a before/after "
              "snapshot of everything around the extraction target.")
LEVEL_NOTE = "file archive backend; runs as root; corruption set is sampled in the quick tier and covers all truncation lengths of three artifacts in the thorough tier."
TECHNIQUE = "differential round-trip monitor + fault injection into artifacts judged end-to-end through `bob dev --download forced` + file-system confinement monitor (jail snapshots)"
