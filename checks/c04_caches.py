"""C04 Package graph caches are transparent.

Warm subject: ONE project directory kept across a seeded edit history, a new process per step (as Bob invocations are), so the
on-disk caches (.bob-cache.sqlite3, .bob-packages*.pickle, .bob-tree.sqlite3) and the in-memory package memo are live; the
in-tree `pkgck` self check is switched on as a second monitor.  Cold reference: the same project files in a fresh directory
without any .bob-* file and with the package memo switched off from the harness (PackageMatcher.matches -> False, hit-counted).
After every edit both dump the full package tree (every path) and the answers to a fixed set of path queries; dumps must agree.
"""
import copy, json, os, random, shutil, sys
from lib import common, projgen, edits, bobapi, dump
from lib.common import result, violation

ID = "C04"
LEVEL = "exploration"
BATCH = 1
CASE_TIMEOUT = 900
MIN_NONTRIVIAL = 20
REQUIRED_COUNTERS = ["states_compared", "memo_off_hits", "warm_disk_cache_present", "edits_changing_graph", "queries_compared"]
RULE = ("per case a generated project biased to shared sub-recipes reached under environments/tools that differ in one key read on a lazily "
        "evaluated branch, and a history of 6-10 edits (recipe/class/script edits, default.yaml environment, optional include file "
        "appearing/disappearing, -c config file on/off, -D defines, rootFilter-like config) with a full tree dump + path queries after each "
        "edit, warm vs cold. distinct_nontrivial = distinct (edit kind, graph-changed?) pairs plus distinct graph digests seen.")
ASSUMPTIONS = ["every harness modification of a file changes its stat data (files are rewritten via a new inode)",
               "memoisation is switched off by patching bob.input.PackageMatcher.matches in the reference process only (hit count must be > 0)"]

QUERIES = ["//*", "/*", "extra", "//*/*", "//r1", "//*[\"${VA}\" == \"1\"]", "/r0//*", "//lib*", "//*[r2]"]


def plan(tier, seed):
    n = 20 if tier == "quick" else 1500
    cases = [{"seed": common.subseed(seed, "c04", i), "edits": 6 if tier == "quick" else 10} for i in range(n)]
    scripts = [["include", "include", "any", "include", "include"], ["cfg", "cfg", "cfg", "any", "cfg"], ["include", "cfg", "include", "cfg", "include", "cfg"]]
    for i in range(6 if tier == "quick" else 150):
        cases.append({"seed": common.subseed(seed, "c04d", i), "edits": 6, "script": scripts[i % 3], "_first": i < 6})
    return cases


def child_dump(proj, model, cfgs, nomemo, pkgck, sandbox):
    """fork: parse + dump in a fresh process image of this worker (bob already imported, no state parsed yet)"""
    r, w = os.pipe()
    pid = os.fork()
    if pid == 0:
        res = {}
        try:
            os.close(r)
            devnull = os.open(os.devnull, os.O_WRONLY); os.dup2(devnull, 2); os.dup2(devnull, 1)
            import bob, bob.input
            hits = [0]
            if nomemo:
                def nm(self, *a, **k):
                    hits[0] += 1
                    return False
                bob.input.PackageMatcher.matches = nm
            if pkgck:
                bob.DEBUG["pkgck"] = True
            from bob.errors import BobError
            try:
                with bobapi.project(proj, defines=model.get("defines"), sandbox=sandbox, config_files=cfgs, query_mode="nullset") as (rs, ps):
                    res["tree"] = dump.tree_dump(ps, with_scripts=True)
                    q = {}
                    for query in QUERIES:
                        try:
                            q[query] = sorted("/".join(p.getStack()) for p in ps.queryPackagePath(query, True))
                        except BobError as e:
                            q[query] = "ERR " + str(e)[:100]
                    res["queries"] = q
            except BobError as e:
                res["error"] = "BobError: " + str(e)[:300]
            except AssertionError as e:
                res["assert"] = "AssertionError: " + str(e)[:300]
            res["hits"] = hits[0]
        except BaseException as e:
            res = {"crash": "%s: %s" % (type(e).__name__, str(e)[:300])}
        try:
            with os.fdopen(w, "w") as f:
                json.dump(res, f)
        finally:
            os._exit(0)
    os.close(w)
    with os.fdopen(r) as f:
        data = f.read()
    os.waitpid(pid, 0)
    try:
        return json.loads(data)
    except ValueError:
        return {"crash": "no output from child"}


def rewrite(path, content):
    """replace a file through a new inode (stat data changes even on coarse clocks)"""
    tmp = path + ".tmp~"
    with open(tmp, "w") as f:
        f.write(content)
    os.replace(tmp, path)


def biased_model(rnd):
    feats = rnd.sample(["classes", "multi", "tools", "pdeps", "if", "expr", "weak", "menv", "fwd", "names", "roots2"], rnd.randrange(3, 9)) + ["if", "roots2", "includes"]
    m = projgen.gen_model(rnd, rnd.randrange(5, 10), feats)
    # dangerous shape: one shared recipe reached >= 3 times with environments that differ in one key which it reads lazily
    names = list(m["recipes"])
    shared = names[-1]
    sr = m["recipes"][shared]
    v, w = rnd.sample(projgen.VARNAMES, 2)
    sr.setdefault("penv", {})["LAZY"] = rnd.choice(["${%s:-${%s:-none}}" % (v, w), "$(if-then-else,${%s:-},${%s:-x},fixed)" % (v, w), "${%s+set}${%s-unset}" % (v, w)])
    sr["vars"]["build"] = sorted(set(sr["vars"]["build"]) | {"LAZY"})
    if not sr.get("multi"):
        for i, n in enumerate(names[:-1][:4]):
            r = m["recipes"][n]
            if not any(d["name"] == shared for d in r["depends"]):
                r["depends"].append({"name": shared, "env": {rnd.choice([v, w]): rnd.choice(["", "1", "x"])} if rnd.random() < 0.7 else {}})
    return m


def extra_config(rnd, model, force_filter=False):
    """content of an optional include / -c file: settings that influence the graph through different channels"""
    parts = []
    if force_filter:
        roots = [n for n, r in model["recipes"].items() if r.get("root") and not r.get("multi")]
        return ("rootFilter:\n  - \"!%s\"\n" % rnd.choice(roots)) if roots else "alias:\n  extra: \"//*\"\n"
    if rnd.random() < 0.5:
        parts.append("environment:\n  %s: \"%s\"\n" % (rnd.choice(projgen.VARNAMES), rnd.choice(projgen.VALS)))
    roots = [n for n, r in model["recipes"].items() if r.get("root") and not r.get("multi")]
    if rnd.random() < 0.6 and roots:
        parts.append("rootFilter:\n  - \"!%s\"\n" % rnd.choice(roots))
    if rnd.random() < 0.3:
        parts.append("whitelist: [\"XYZ\"]\n")
    if rnd.random() < 0.3 or not parts:
        parts.append("alias:\n  extra: \"//*\"\n")
    return "".join(parts)


def run_case(case):
    common.repo_path_setup()
    import bob.input        # import before forking
    rnd = random.Random(case["seed"])
    counters = dict.fromkeys(REQUIRED_COUNTERS, 0)
    viol, sigs, hist = [], set(), []
    model = bobapi.gen_valid_model(rnd, lambda: biased_model(rnd))
    if model is None:
        return result("trivial", counters=counters, note="no valid model")
    sandbox = rnd.random() < 0.2
    prev_digest = None
    cfg_on = False
    with common.scratch("c04", root="/dev/shm/bobverif" if os.path.isdir("/dev/shm") else None) as base:
        W = os.path.join(base, "W")
        projgen.write_project(W, model)
        for step in range(case["edits"] + 1):
            if step:
                k = rnd.random()
                forced = (case.get("script") or [])[step - 1:step]
                if forced:
                    # directed histories: a config file that influences the graph outside the environment appears / disappears / is
                    # switched on and off while no other file changes (nothing is parsed freshly in the following evaluation)
                    k = {"include": 0.6, "cfg": 0.8, "any": k}[forced[0]]
                if k < 0.15:
                    ed = edits.apply_edit(model, rnd, ["inc_mod", "inc_mod", "class_tok", "tok"])
                elif k < 0.55:
                    ed = edits.apply_edit(model, rnd)
                elif k < 0.70:
                    # optional include file appearing / disappearing / changing
                    inc = model.setdefault("files", {})
                    dflt = model.setdefault("default", {})
                    dflt["include"] = ["local"]          # optional include: local.yaml may be absent
                    if "local.yaml" in inc and (rnd.random() < 0.5 or forced):
                        del inc["local.yaml"]; ed = ("include-file-removed",)
                    else:
                        inc["local.yaml"] = extra_config(rnd, model, bool(forced))
                        ed = ("include-file-written",)
                elif k < 0.85:
                    inc = model.setdefault("files", {})
                    if "cfg.yaml" not in inc:
                        inc["cfg.yaml"] = extra_config(rnd, model, bool(forced))
                    cfg_on = not cfg_on
                    ed = ("-c cfg", cfg_on)
                else:
                    ed = edits.apply_edit(model, rnd, ["define", "default_env"])
                hist.append(ed)
                # apply to the warm directory: rewrite recipes etc. in place (new inodes), remove vanished files
                tmp = os.path.join(base, "gen"); shutil.rmtree(tmp, ignore_errors=True)
                projgen.write_project(tmp, model)
                # only files whose content changed are touched (new inode); unchanged files keep their stat data, so that the
                # following evaluation really parses nothing but the edited files (an edit that only removes a file parses nothing)
                def sync(rel_dir):
                    src_d, dst_d = os.path.join(tmp, rel_dir), os.path.join(W, rel_dir)
                    want = {}
                    if os.path.isdir(src_d):
                        for dp, dn, fn in os.walk(src_d):
                            for f in fn:
                                want[os.path.relpath(os.path.join(dp, f), src_d)] = os.path.join(dp, f)
                    have = set()
                    if os.path.isdir(dst_d):
                        for dp, dn, fn in os.walk(dst_d):
                            for f in fn:
                                have.add(os.path.relpath(os.path.join(dp, f), dst_d))
                    for rel in have - set(want):
                        os.unlink(os.path.join(dst_d, rel))
                    for rel, srcf in want.items():
                        dstf = os.path.join(dst_d, rel)
                        c_ = open(srcf).read()
                        if not os.path.exists(dstf) or open(dstf).read() != c_:
                            os.makedirs(os.path.dirname(dstf), exist_ok=True)
                            rewrite(dstf, c_)
                for sub in ("recipes", "classes"):
                    sync(sub)
                for f in ("config.yaml", "default.yaml", "local.yaml", "cfg.yaml"):
                    src = os.path.join(tmp, f)
                    if os.path.exists(src):
                        if not os.path.exists(os.path.join(W, f)) or open(os.path.join(W, f)).read() != open(src).read():
                            rewrite(os.path.join(W, f), open(src).read())
                    elif os.path.exists(os.path.join(W, f)):
                        os.unlink(os.path.join(W, f))
            cfgs = ["cfg"] if cfg_on else []
            C = os.path.join(base, "C"); shutil.rmtree(C, ignore_errors=True)
            projgen.write_project(C, model)
            warm = child_dump(W, model, cfgs, nomemo=False, pkgck=(step % 2 == 1), sandbox=sandbox)
            if step and any(f.startswith(".bob-") for f in os.listdir(W)):
                counters["warm_disk_cache_present"] += 1
            # a second warm invocation of the unchanged project (fully hot caches) must agree as well
            warm2 = child_dump(W, model, cfgs, nomemo=False, pkgck=False, sandbox=sandbox)
            cold = child_dump(C, model, cfgs, nomemo=True, pkgck=False, sandbox=sandbox)
            ctx = {"step": step, "history": hist[-5:], "sandbox": sandbox, "config_files": cfgs}
            for nm, d_ in (("warm", warm), ("warm2", warm2), ("cold", cold)):
                if "crash" in d_:
                    return result("inconclusive", counters=counters, note="dump child crashed (%s): %s" % (nm, d_["crash"]))
            if "assert" in warm:
                viol.append(violation("pkgck-assertion-in-warm-run", dict(ctx, error=warm["assert"]))); break
            counters["memo_off_hits"] += cold.get("hits", 0)
            if ("error" in warm) != ("error" in cold) or ("error" in warm2) != ("error" in cold):
                viol.append(violation("only-one-side-fails-to-parse", dict(ctx, warm=warm.get("error"), warm2=warm2.get("error"), cold=cold.get("error")))); break
            if "error" in cold:
                # refused by both: undo the edit and continue
                continue
            counters["states_compared"] += 1
            for nm, d_ in (("warm", warm), ("second-warm", warm2)):
                if d_["tree"] != cold["tree"]:
                    viol.append(violation("%s-graph-differs-from-uncached-graph" % nm, dict(ctx, first_difference=dump.first_difference(d_["tree"], cold["tree"]))))
                    break
                counters["queries_compared"] += len(QUERIES)
                if d_["queries"] != cold["queries"]:
                    q = next(q for q in QUERIES if d_["queries"][q] != cold["queries"][q])
                    viol.append(violation("%s-query-answer-differs" % nm, dict(ctx, query=q, warm=d_["queries"][q][:8] if isinstance(d_["queries"][q], list) else d_["queries"][q],
                                                                               cold=cold["queries"][q][:8] if isinstance(cold["queries"][q], list) else cold["queries"][q])))
                    break
            if viol:
                break
            dg = dump.digest(cold["tree"])
            changed = prev_digest is not None and dg != prev_digest
            if changed:
                counters["edits_changing_graph"] += 1
            if step:
                sigs.add("%s|%s" % (hist[-1][0], "changed" if changed else "same"))
            sigs.add("graph|" + dg[:10])
            prev_digest = dg
    return result("held", sigs=sorted(sigs), counters=counters, violations=viol[:3],
                  sample={"history": hist, "paths_in_last_tree": len(cold.get("tree", [])) if "cold" in dir() else 0})


LEVEL_TEXT = ("Exploration: seeded edit histories; after each edit the package graph computed by a fresh process in the long-lived (warm) "
              "project directory is compared field by field, for every package path, with the graph computed in a pristine copy with "
              "memoisation disabled; the in-tree pkgck assertion runs in every other warm invocation.")
LEVEL_NOTE = "Graph read through the public Package/Step API; trees are bounded (<= 3000 paths)."
TECHNIQUE = "differential runtime monitor: warm caches vs cache-free reference process, full package-tree dump + query answers, plus in-tree pkgck assertion"
