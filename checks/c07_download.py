"""C07 Binary artifacts are reused exactly when they are the right ones.

Uploader workspace A and downloader workspace B live at different paths; their project states are connected by a seeded
edit history (possibly empty); the archive additionally holds artifacts of neighbour states.  Oracles: (1) B built with any
download mode yields dist trees identical to B's own purely local clean build (exit != 0 is acceptable only for the forced
modes when a needed artifact cannot exist); (2) identical state + everything uploaded + --download forced executes no
build/package step; (3) a differing emulated host fingerprint or any edit never lets B take A's artifact when the local
result differs (covered by 1, counted separately when the result really differs).
"""
import copy, os, random, re, shutil
from lib import common, projgen, edits, e2e, treecanon, bobapi
from lib.common import result, violation

ID = "C07"
LEVEL = "exploration"
BATCH = 1
CASE_TIMEOUT = 1800
MIN_NONTRIVIAL = 10
REQUIRED_COUNTERS = ["upload_builds", "download_builds", "packages_downloaded", "packages_compared", "forced_full_reuse_checks", "states_with_differing_results", "fingerprint_variations"]
RULE = ("per case: generated or fixed-shape project (tools incl. transitive dependTools, weak tools, import sources with checkout scripts whose "
        "live-build-id prediction is wrong, fingerprinted package reading an emulated host id), uploader builds 1-3 states of a history into "
        "one archive, downloader builds the final (or an edited) state at another path with each of yes/deps/forced/forced-deps/forced-fallback/"
        "packages=RE. distinct_nontrivial = distinct (download mode, relation between uploaded and downloaded state, number of packages actually "
        "downloaded class) combinations.")
ASSUMPTIONS = ["file archive backend", "scripts are deterministic and path-free, so a relocated build of the same state must be byte-identical",
               "for forced* modes a non-zero exit is legitimate when the downloader's state was never uploaded"]

MODES = ["yes", "deps", "forced", "forced-deps", "forced-fallback", "packages=.*lib.*|.*r[0-9].*"]


def plan(tier, seed):
    n = 8 if tier == "quick" else 300
    cases = [{"seed": common.subseed(seed, "c07", i), "focused": i % 2 == 0, "modes": 3 if tier == "quick" else 6} for i in range(n)]
    cases += [{"seed": common.subseed(seed, "c07l", i), "livebid": True, "_first": i < 6} for i in range(3 if tier == "quick" else 60)]
    return cases


def c07_model(rnd, focused, hostfile):
    if focused:
        m = projgen.focused_model(rnd)
        k0 = lambda: {k: [] for k in projgen.KINDS}
        T = lambda: projgen.new_tok(rnd)
        # transitive tool: t1 (strong in root.build) depends on t2; t2 is ALSO listed weakly by root
        m["recipes"]["tl2"] = {"env": {}, "vars": k0(), "weak": k0(), "src": True, "tok": {"checkout": None, "build": T(), "package": T()},
                               "ptools": {"t2": {"path": "bin", "libs": []}}, "tools": k0(), "toolsWeak": k0(), "depends": []}
        m["sources"]["tl2"] = {"helper.c": "helper-" + T()}
        m["recipes"]["tl"]["ptools"]["t1"]["dependTools"] = ["t2"]
        m["recipes"]["tl"]["ptools"]["t1"]["calls"] = ["t2"]
        m["recipes"]["tl"]["depends"].append({"name": "tl2", "use": ["tools"]})
        m["recipes"]["root"]["depends"].insert(1, {"name": "tl2", "use": ["tools"]})
        m["recipes"]["root"]["toolsWeak"]["build"] = ["t2"]
    else:
        feats = rnd.sample(["classes", "multi", "pdeps", "weak", "fwd", "checkoutscript"], rnd.randrange(2, 6)) + ["src", "tools", "checkoutscript"]
        m = projgen.gen_model(rnd, rnd.randrange(4, 8), feats)
    # a fingerprinted package: its build reads the emulated host id, the fingerprint script reports it
    # (fingerprints are transitive through results but deliberately NOT through tools: the fingerprinted package must not feed a tool)
    names = list(m["recipes"])
    fp = "lib" if focused else names[0]
    r = m["recipes"][fp]
    r.setdefault("extra", {})["build"] = 'cat "%s" >> manifest.txt' % hostfile
    r["fingerprint"] = {"fingerprintScript": 'cat "%s"' % hostfile, "fingerprintIf": True}
    m["evlog"] = True
    return m


def run_livebid(case):
    """Several wrong live-build-id predictions in ONE invocation ("whatever the archive contains").

    Two states S0/S1 that differ only in the imported sources of 2-3 libraries (same variants).  W1a/W1b publish the live-build-id ->
    src build-id mappings of both states (checkout-only + upload).  The harness then makes the archive lie: every mapping of S0 is
    rewritten to the src build-id of the same library in S1.  W2 (fresh directory, S0, --download yes --upload) therefore mispredicts
    every library and restarts per library; W3 (fresh directory, S1, --download yes) follows.  Both must equal their local clean builds.
    """
    common.repo_path_setup()
    from bob.utils import hashDirectory
    rnd = random.Random(case["seed"])
    counters = dict.fromkeys(REQUIRED_COUNTERS, 0)
    viol, sigs = [], set()
    k0 = lambda: {k: [] for k in projgen.KINDS}
    T = lambda: projgen.new_tok(rnd)
    nlibs = rnd.choice([2, 3])
    m = {"recipes": {}, "classes": {}, "sources": {}, "defines": {}, "default": {}, "evlog": True}
    libs = ["lib%d" % i for i in range(nlibs)]
    for i, n in enumerate(libs):
        m["recipes"][n] = {"env": {}, "vars": k0(), "weak": k0(), "src": True, "tok": {"checkout": None, "build": T(), "package": T()}, "tools": k0(), "toolsWeak": k0(),
                           "depends": ([{"name": libs[i - 1]}] if i and rnd.random() < 0.5 else [])}
        m["sources"][n] = {"data.c": "data-" + T()}
    m["recipes"]["root"] = {"root": True, "env": {}, "vars": k0(), "weak": k0(), "tok": {"checkout": None, "build": T(), "package": T()}, "tools": k0(), "toolsWeak": k0(),
                            "depends": [{"name": n} for n in libs]}
    with common.scratch("c07l") as base:
        arch = os.path.join(base, "archive")
        m["default"]["archive"] = {"backend": "file", "path": arch}
        s0 = copy.deepcopy(m); s1 = copy.deepcopy(m)
        for n in libs:
            s1["sources"][n]["data.c"] = "changed-" + T()
        refs = {}
        for tag, st in (("s0", s0), ("s1", s1)):
            R = os.path.join(base, "ref-" + tag, "r"); projgen.write_project(R, st)
            rr = e2e.build(R, st, "dev", extra=["--download", "no"])
            if rr.returncode != 0:
                return result("trivial", counters=counters, note="reference build failed: " + rr.tail(300))
            d, _ = e2e.dists(R, st, "dev")
            refs[tag] = ({n: treecanon.canon(x) for n, x in d.items()}, d)
        srcbid = {}
        for tag, st in (("s0", s0), ("s1", s1)):
            W1 = os.path.join(base, "w1" + tag, "p"); projgen.write_project(W1, st)
            r = e2e.build(W1, st, "dev", extra=["--checkout-only", "--upload"]); counters["upload_builds"] += 1
            if r.returncode != 0:
                return result("trivial", counters=counters, note="mapping upload failed: " + r.tail(300))
            d, _ = e2e.dists(W1, st, "dev", field="src")
            srcbid[tag] = {n.split("/")[-1]: hashDirectory(x) for n, x in d.items()}
        # the archive lies: S0's live-build-ids now map to S1's sources
        rewritten = 0
        inv0 = {v: k for k, v in srcbid["s0"].items()}
        for dp, dn, fn in os.walk(arch):
            for f in fn:
                if f.endswith(".buildid"):
                    p_ = os.path.join(dp, f); c = open(p_, "rb").read()
                    if c in inv0:
                        os.chmod(p_, 0o644); open(p_, "wb").write(srcbid["s1"][inv0[c]]); rewritten += 1
        counters["archive_mappings_rewritten"] = rewritten
        if rewritten < 2:
            return result("inconclusive", counters=counters, note="could not find the uploaded live-build-id mappings")
        for tag, st, wd, extra in (("s0", s0, "w2", ["--download", "yes", "--upload"]), ("s1", s1, "w3", ["--download", "yes"])):
            W = os.path.join(base, wd, "deeper", "p"); projgen.write_project(W, st)
            r = e2e.build(W, st, "dev", extra=extra); counters["download_builds"] += 1
            summ = e2e.summary(r) or {}
            counters["packages_downloaded"] += summ.get("downloaded", 0)
            restarts = (r.stdout + r.stderr).count("Restart build due to wrongly predicted sources")
            counters["build_restarts_after_wrong_prediction"] = counters.get("build_restarts_after_wrong_prediction", 0) + restarts
            if restarts >= 2:
                counters["invocations_with_two_or_more_wrong_predictions"] = counters.get("invocations_with_two_or_more_wrong_predictions", 0) + 1
            ctx = {"scenario": "archive maps live-build-ids of this state to the sources of another state: several wrong predictions in one invocation",
                   "workspace": wd, "state": tag, "libs": nlibs, "restarts": restarts, "summary": summ}
            if r.returncode != 0:
                viol.append(violation("build-with-downloads-failed-although-local-build-succeeds", dict(ctx, output=r.tail(500)))); continue
            dw, _ = e2e.dists(W, st, "dev")
            bad = []
            for n, d in dw.items():
                counters["packages_compared"] += 1
                if n in refs[tag][0] and treecanon.canon(d) != refs[tag][0][n]:
                    bad.append({"package": n, "diff": treecanon.diff(d, refs[tag][1][n], 5)})
            if bad:
                viol.append(violation("downloaded-build-differs-from-local-build", dict(ctx, differences=bad[:3])))
            sigs.add("livebid|%s|libs%d|restarts%d|dl%d" % (tag, nlibs, min(restarts, 3), min(summ.get("downloaded", 0), 3)))
        counters["states_with_differing_results"] += 1
    return result("held", sigs=sorted(sigs), counters=counters, violations=viol[:3], sample={"scenario": "livebid", "libs": nlibs})


def run_case(case):
    if case.get("livebid"):
        return run_livebid(case)
    rnd = random.Random(case["seed"])
    counters = dict.fromkeys(REQUIRED_COUNTERS, 0)
    viol, sigs = [], set()
    with common.scratch("c07") as base:
        hostfile = os.path.join(base, "hostid")
        open(hostfile, "w").write("host-1\n")
        model = bobapi.gen_valid_model(rnd, lambda: c07_model(rnd, case["focused"], hostfile))
        if model is None:
            return result("trivial", counters=counters, note="no valid model")
        arch = os.path.join(base, "archive")
        model["default"]["archive"] = {"backend": "file", "path": arch}
        # ---- uploader: a short history, every state uploaded
        A = os.path.join(base, "A")
        states = [copy.deepcopy(model)]
        m = copy.deepcopy(model)
        for i in range(rnd.choice([0, 1, 2])):
            if case["focused"]:
                eds = [e for e in projgen.focused_edits(rnd) if e[0] not in ("dep-remove/add",)]
                label, fn = rnd.choice(eds); fn(m)
            else:
                edits.apply_edit(m, rnd, edits.SINGLE_FACTOR + ["tok", "dep_env"])
            states.append(copy.deepcopy(m))
        uploaded = []
        for st in states:
            projgen.write_project(A, st)
            r = e2e.build(A, st, "dev", extra=["--upload"])
            counters["upload_builds"] += 1
            if r.returncode != 0:
                if not uploaded:
                    return result("trivial", counters=counters, note="uploader build failed: " + r.tail(300))
                continue
            uploaded.append(st)
        final = uploaded[-1]
        # ---- downloader states: identical / one more edit / different host fingerprint / older uploaded state
        variants = [("identical", final, "host-1\n")]
        m2 = copy.deepcopy(final)
        if case["focused"]:
            extra_edits = [e for e in projgen.focused_edits(rnd) if e[0] in ("tool-source-mod", "lib-source-mod", "root-build-var-samelen", "provided-var-samelen", "base-source-mod", "tool-content", "define-X")]
            tl2 = ("tool2-source-mod", lambda mm: mm["sources"]["tl2"].__setitem__("helper.c", "changed-" + projgen.new_tok(rnd)))
            label, fn = rnd.choice(extra_edits + [tl2, tl2])
            fn(m2)
        else:
            label = edits.apply_edit(m2, rnd, edits.SINGLE_FACTOR)[0]
        variants.append(("edited:" + label, m2, "host-1\n"))
        if case["focused"] and label != "tool2-source-mod":
            # the transitively strong / directly weak tool changes: always part of a focused case
            m3 = copy.deepcopy(final); tl2[1](m3)
            variants.append(("edited:tool2-source-mod", m3, "host-1\n"))
        variants.append(("other-host", final, "host-2\n"))
        if len(uploaded) > 1:
            variants.append(("older-uploaded-state", uploaded[0], "host-1\n"))
        modes = rnd.sample(MODES, case["modes"])
        if "forced" not in modes:
            modes[0] = "forced"
        for vi, (rel, st, host) in enumerate(variants):
            open(hostfile, "w").write(host)
            if host != "host-1\n":
                counters["fingerprint_variations"] += 1
            # reference: purely local clean build of that state
            R = os.path.join(base, "ref%d" % vi, "r"); projgen.write_project(R, st)
            rr = e2e.build(R, st, "dev", extra=["--download", "no"])
            if rr.returncode != 0:
                counters["reference_failed"] = counters.get("reference_failed", 0) + 1
                continue
            dref, _ = e2e.dists(R, st, "dev")
            ref = {n: treecanon.canon(d) for n, d in dref.items()}
            was_uploaded = any(st == u for u in uploaded) and host == "host-1\n"
            for mi, mode in enumerate(modes if vi < 2 else modes[:1]):
                B = os.path.join(base, "other", "place", "B%d_%d" % (vi, mi)); projgen.write_project(B, st)
                evlog = os.path.join(base, "ev%d_%d.log" % (vi, mi))
                r = e2e.build(B, st, "dev", extra=["--download", mode], evlog=evlog)
                counters["download_builds"] += 1
                summ = e2e.summary(r) or {}
                counters["packages_downloaded"] += summ.get("downloaded", 0)
                ctx = {"download": mode, "relation": rel, "uploaded_states": len(uploaded), "focused": case["focused"], "summary": summ}
                if r.returncode != 0:
                    if mode.startswith("forced") and not was_uploaded:      # forced-fallback falls back to forced-deps, which fails as well
                        sigs.add("%s|%s|refused" % (mode.split("=")[0], rel.split(":")[0]))
                        continue
                    viol.append(violation("build-with-downloads-failed-although-local-build-succeeds", dict(ctx, output=r.tail(500))))
                    continue
                dw, _ = e2e.dists(B, st, "dev")
                bad = []
                for n, d in dw.items():          # only directories that exist in B (downloaded packages need no dependencies)
                    counters["packages_compared"] += 1
                    if n in ref and treecanon.canon(d) != ref[n]:
                        bad.append({"package": n, "diff": treecanon.diff(d, dref[n], 5)})
                if bad:
                    viol.append(violation("downloaded-build-differs-from-local-build", dict(ctx, differences=bad[:3])))
                if rel == "identical" and mode == "forced":
                    counters["forced_full_reuse_checks"] += 1
                    ex = [(n_, k) for n_, k, _ in e2e.read_evlog(evlog) if k in ("build", "package")]
                    if ex or summ.get("built", 0) != 0:
                        viol.append(violation("identical-state-not-fully-reused-from-archive", dict(ctx, executed=ex[:6])))
                sigs.add("%s|%s|dl%d" % (mode.split("=")[0], rel.split(":")[0], min(summ.get("downloaded", 0), 3)))
                shutil.rmtree(B, ignore_errors=True)
            if rel != "identical":
                # did the local result of this state really differ from the uploaded final state? (positive control for "no stale artifact")
                R0 = os.path.join(base, "ref0", "r")
                if os.path.isdir(R0) and vi > 0:
                    d0, _ = e2e.dists(R0, final, "dev")
                    if any(n in d0 and treecanon.canon(d0[n]) != ref[n] for n in ref):
                        counters["states_with_differing_results"] += 1
            if len(viol) >= 3:
                break
        open(hostfile, "w").write("host-1\n")
    return result("held", sigs=sorted(sigs), counters=counters, violations=viol[:4], sample={"focused": case["focused"], "variants": [v[0] for v in variants], "modes": modes})


LEVEL_TEXT = ("Exploration: uploader/downloader pairs at different paths over seeded histories and all download modes; every downloading build "
              "is compared package by package with a purely local clean build of the same state, full reuse is checked through the step event "
              "log, differing host fingerprints and neighbour-state artifacts are in the archive on purpose.")
LEVEL_NOTE = "File archive backend only; HTTP/Azure transports and Jenkins are out of reach. Wrong live-build-id predictions are exercised through import sources plus checkout scripts."
TECHNIQUE = "differential runtime monitor (download-enabled build vs local clean build) over uploader/downloader state pairs + step event log for full-reuse"
