"""C18 Package path queries return their declarative meaning.

Reference = naive forward evaluator over an independently built copy of the package graph (nodes = packages as the API
hands them out, children = direct dependencies plus un-shadowed provided ones), predicates evaluated per context package
with exists-semantics, written from doc/manpages/bobpaths.rst and bob.rst (--query modes).  The real
PackageSet.queryPackagePath / queryTreePath (cold and warm .bob-tree.sqlite3, queryAll both ways) must return the same
set of packages, and every reported stack must be a real edge path that the query accepts step by step.
"""
import os, random, re
from lib import common, projgen, bobapi
from lib.common import result, violation

ID = "C18"
LEVEL = "exploration"
BATCH = 2
CASE_TIMEOUT = 600
MIN_NONTRIVIAL = 40
REQUIRED_COUNTERS = ["queries", "nonempty_results", "paths_checked", "predicate_queries", "error_expected", "warm_db_queries"]
RULE = ("generated recipe DAGs (shared nodes, same recipe under different environments, provided/indirect dependencies, wildcard-friendly "
        "names, consumed variables and meta environment) x queries generated from the path grammar (all seven axes, wildcards, //, ., "
        "nested predicates with relative/absolute paths, string comparisons, !, &&, ||, function calls, aliases) x three --query modes. "
        "distinct_nontrivial = distinct (query shape, result-size class) with a non-empty result that is not the whole graph.")
ASSUMPTIONS = ["package identity = the package id the API assigns (Package._getId); environment of a context package = Package API (package step env + meta env)",
               "only `*` is special in name tests (documentation); under nullglob an exact name on an explicit descendant axis may or may not raise on an empty result (documentation ambiguous)",
               "string literals in generated predicates are limited to \"${VAR}\", plain text and match()/strip() calls (substitution itself is C17)"]

AXES = ["child", "descendant", "descendant-or-self", "direct-child", "direct-descendant", "direct-descendant-or-self", "self"]


def plan(tier, seed):
    n = 40 if tier == "quick" else 1500
    return [{"seed": common.subseed(seed, "c18", i), "queries": 40 if tier == "quick" else 100} for i in range(n)]


# ------------------------------------------------------------------ reference graph and evaluator

class Graph:
    def __init__(self, root_pkg):
        self.name, self.kids, self.env = {}, {}, {}
        self.root = self._add(root_pkg)

    def _add(self, pkg):
        k = pkg._getId()
        if k in self.name:
            return k
        self.name[k] = pkg.getName()
        self.kids[k] = None
        env = {}
        try:
            ps = pkg.getPackageStep()
            env.update(ps.getEnv())
        except Exception:
            pass
        env.update(pkg.getMetaEnv())
        self.env[k] = env
        kids = {}
        for cname, (c, direct) in bobapi.children(pkg).items():
            kids[cname] = (self._add(c), direct)
        self.kids[k] = kids
        return k

    def children(self, k, direct_only):
        return {c for c, d in self.kids[k].values() if d or not direct_only}

    def descendants(self, ks, direct_only):
        out, todo = set(), set(ks)
        while todo:
            nxt = set()
            for k in todo:
                nxt |= self.children(k, direct_only)
            todo = nxt - out
            out |= nxt
        return out


def name_matches(test, name):
    if test == "*":
        return True
    if "*" in test:
        return re.fullmatch(".*".join(re.escape(p) for p in test.split("*")), name) is not None
    return test == name


def is_false(v):
    return v.strip().lower() in ("", "0", "false")


class Ref:
    def __init__(self, g):
        self.g = g

    def axis(self, ax, ctx):
        g = self.g
        direct = ax.startswith("direct-")
        base = ax[7:] if direct else ax
        if base == "self":
            return set(ctx)
        if base == "child":
            out = set()
            for k in ctx:
                out |= g.children(k, direct)
            return out
        d = g.descendants(ctx, direct)
        return d | set(ctx) if base == "descendant-or-self" else d

    def step(self, st, ctx):
        nodes = self.axis(st["axis"], ctx)
        nodes = {k for k in nodes if name_matches(st["test"], self.g.name[k])}
        if st.get("pred") is not None:
            nodes = {k for k in nodes if self.pred(st["pred"], k)}
        return nodes

    def path(self, p, ctx):
        nodes = {self.g.root} if p["abs"] else set(ctx)
        for st in p["steps"]:
            nodes = self.step(st, nodes)
        return nodes

    def string(self, e, k):
        t = e[0]
        if t == "lit":
            return e[1]
        if t == "var":
            return self.g.env[k].get(e[1], "")
        if t == "strip":
            return self.string(e[1], k).strip()
        if t == "matchf":
            return "true" if re.search(e[2], self.string(e[1], k)) else "false"
        raise AssertionError(e)

    def pred(self, e, k):
        t = e[0]
        if t == "path":
            return bool(self.path(e[1], {k}))
        if t == "not":
            return not self.pred(e[1], k)
        if t == "and":
            return self.pred(e[1], k) and self.pred(e[2], k)
        if t == "or":
            return self.pred(e[1], k) or self.pred(e[2], k)
        if t == "cmp":
            l, r = self.string(e[2], k), self.string(e[3], k)
            return {"==": l == r, "!=": l != r, "<": l < r, "<=": l <= r, ">": l > r, ">=": l >= r}[e[1]]
        return not is_false(self.string(e, k))

    def accepts(self, steps, nodes, edges_direct):
        """Is the concrete root path (nodes[0] = root, edges_direct[i] = directness of edge i) accepted by the steps?"""
        n = len(nodes) - 1
        pos = {0}
        for st in steps:
            ax = st["axis"]
            direct = ax.startswith("direct-")
            base = ax[7:] if direct else ax
            nxt = set()
            for i in pos:
                lo, hi = {"self": (0, 0), "child": (1, 1), "descendant": (1, n), "descendant-or-self": (0, n)}[base]
                for j in range(i + lo, min(n, i + hi) + 1):
                    if direct and not all(edges_direct[i:j]):
                        continue
                    k = nodes[j]
                    if name_matches(st["test"], self.g.name[k]) and (st.get("pred") is None or self.pred(st["pred"], k)):
                        nxt.add(j)
            pos = nxt
            if not pos:
                return False
        return n in pos


# ------------------------------------------------------------------ query generator (AST + text)

class QGen:
    def __init__(self, rnd, names, varnames, values):
        self.rnd, self.names, self.varnames, self.values = rnd, names, varnames, values
        self.feat = set()

    def test(self):
        r = self.rnd.random()
        n = self.rnd.choice(self.names)
        if r < 0.45:
            return n
        if r < 0.65:
            self.feat.add("wild"); return "*"
        self.feat.add("glob")
        i = self.rnd.randrange(0, len(n) + 1)
        return self.rnd.choice([n[:i] + "*", "*" + n[i:], n[:i] + "*" + n[min(len(n), i + 1):], "*-*", "l*b*"])

    def step(self, depth, explicit=None):
        rnd = self.rnd
        ax = rnd.choice(AXES) if rnd.random() < 0.45 else "child"
        st = {"axis": ax, "test": self.test(), "pred": None}
        if ax == "self" and rnd.random() < 0.5:
            st["test"] = "*"
        if depth > 0 and rnd.random() < 0.3:
            st["pred"] = self.pred(depth - 1)
            self.feat.add("pred")
        st["explicit"] = ax != "child" or rnd.random() < 0.2
        self.feat.add("axis:" + ax)
        return st

    def path(self, depth, top=False):
        rnd = self.rnd
        p = {"abs": top or rnd.random() < 0.25, "steps": [], "seps": []}
        for i in range(rnd.choice([1, 1, 2, 2, 3, 4])):
            p["steps"].append(self.step(depth))
        # separators: "/" or "//" (descendant-or-self@*/) - the latter is materialised as an extra step in the AST
        steps, text = [], []
        lead = ""
        if p["abs"]:
            if rnd.random() < 0.35:
                lead = "//"; steps.append({"axis": "descendant-or-self", "test": "*", "pred": None}); self.feat.add("//")
            else:
                lead = "/"
        for i, st in enumerate(p["steps"]):
            if i > 0:
                if rnd.random() < 0.2:
                    text.append("//"); steps.append({"axis": "descendant-or-self", "test": "*", "pred": None}); self.feat.add("//")
                else:
                    text.append("/")
            if st["axis"] == "self" and st["test"] == "*" and st["pred"] is None and rnd.random() < 0.7:
                text.append("."); self.feat.add(".")
            else:
                s = (st["axis"] + "@" if st["explicit"] else "") + st["test"]
                if st["pred"] is not None:
                    sp = rnd.choice(["", " "])
                    s += "[" + sp + self.render_pred(st["pred"]) + sp + "]"
                text.append(s)
            steps.append(st)
        return {"abs": p["abs"], "steps": steps, "text": lead + "".join(text)}

    def string(self):
        rnd = self.rnd
        r = rnd.random()
        if r < 0.45:
            return ("var", rnd.choice(self.varnames))
        if r < 0.8:
            return ("lit", rnd.choice(self.values))
        if r < 0.9:
            return ("strip", ("var", rnd.choice(self.varnames)))
        return ("matchf", ("var", rnd.choice(self.varnames)), rnd.choice(["G", "^.$", "a|1", "[0-9]"]))

    def pred(self, depth):
        rnd = self.rnd
        r = rnd.random()
        if r < 0.35:
            self.feat.add("pred:path")
            return ("path", self.path(depth))
        if r < 0.6:
            self.feat.add("pred:cmp")
            return ("cmp", rnd.choice(["==", "==", "!=", "<", "<=", ">", ">="]), self.string(), self.string())
        if r < 0.7:
            self.feat.add("pred:str")
            return self.string()
        if depth <= 0:
            return ("cmp", "==", self.string(), self.string())
        if r < 0.8:
            self.feat.add("pred:not")
            return ("not", self.pred(depth - 1))
        self.feat.add("pred:bool")
        return (rnd.choice(["and", "or"]), self.pred(depth - 1), self.pred(depth - 1))

    def render_string(self, e):
        t = e[0]
        if t == "lit":
            return ("'%s'" % e[1]) if self.rnd.random() < 0.5 else ('"%s"' % e[1])
        if t == "var":
            return '"${%s}"' % e[1] if self.rnd.random() < 0.7 else '"$%s"' % e[1]
        if t == "strip":
            return "strip(%s)" % self.render_string(e[1])
        return "match(%s, '%s')" % (self.render_string(e[1]), e[2])       # single quotes: the pattern is taken verbatim

    RANK = {"not": 0, "cmp": 1, "and": 2, "or": 3}

    def render_pred(self, e, parent=None):
        t = e[0]
        if t == "path":
            s = e[1]["text"]
            return s
        if t == "not":
            inner = e[1]
            si = self.render_pred(inner, "not")
            return "!" + (si if inner[0] in ("path", "lit", "var", "strip", "matchf", "not") and self.rnd.random() < 0.7 else "(" + si + ")")
        if t in ("and", "or"):
            s = self.render_pred(e[1], t) + (" && " if t == "and" else " || ") + self.render_pred(e[2], t)
            if parent is not None and (self.RANK[t] > self.RANK.get(parent, 9) or self.rnd.random() < 0.2 or parent == "cmp"):
                s = "(" + s + ")"
            return s
        if t == "cmp":
            sp = self.rnd.choice([" ", ""])
            s = self.render_string(e[2]) + sp + e[1] + sp + self.render_string(e[3])
            if parent == "not":
                s = "(" + s + ")"
            return s
        return self.render_string(e)


def first_empty_policy(ref, q):
    """walks the top-level query; returns (result set, info about the first step that left an empty set or None)"""
    nodes = {ref.g.root}
    complex_so_far = False
    ambiguous = False
    for st in q["steps"]:
        nodes = ref.step(st, nodes)
        wild = "*" in st["test"] or st.get("pred") is not None
        multi_hop = "descendant" in st["axis"]
        trivial_self = st["axis"] == "self" and st["test"] == "*" and st.get("pred") is None
        if trivial_self:
            # `.` / self@* selects the context itself: whether that counts as a "wildcard name match" for the nullglob policy is
            # not defined by the documentation (the implementation drops such steps): either outcome is accepted
            if not complex_so_far:
                ambiguous = True
        elif wild:
            complex_so_far = True
        elif multi_hop and not complex_so_far:
            ambiguous = True
        if not nodes:
            return nodes, {"complex": complex_so_far, "ambiguous": ambiguous and not complex_so_far}
    return nodes, None


def nodes_on_accepted_paths(ref, g, steps, results, limit=4000):
    """all nodes that lie on some root path which ends in a result node and is accepted by the query (None: too many paths)"""
    out = set()
    count = [0]
    def walk(k, nodes, directs):
        count[0] += 1
        if count[0] > limit:
            raise OverflowError()
        if k in results and ref.accepts(steps, nodes, directs):
            out.update(nodes)
        for cname, (c, d) in g.kids[k].items():
            walk(c, nodes + [c], directs + [d])
    try:
        walk(g.root, [g.root], [])
    except (OverflowError, RecursionError):
        return None
    return out


def run_case(case):
    common.repo_path_setup()
    from bob.errors import BobError
    rnd = random.Random(case["seed"])
    counters = dict.fromkeys(REQUIRED_COUNTERS, 0)
    counters["invalid_projects"] = 0
    viol, sigs, samples = [], set(), []
    with common.scratch("c18", root="/dev/shm/bobverif" if os.path.isdir("/dev/shm") else None) as base:
        proj = None
        for attempt in range(12):
            feats = ["names", "pdeps", "menv", "if", "fwd", "multi", "alias", "roots2", "weak"]
            model = projgen.gen_model(rnd, rnd.randrange(4, 10), rnd.sample(feats, rnd.randrange(3, len(feats) + 1)) + ["names", "menv"])
            d = os.path.join(base, "p%d" % attempt)
            projgen.write_project(d, model)
            try:
                with bobapi.project(d) as (rs, ps):
                    ps.getRootPackage()
                proj = d
                break
            except BobError:
                counters["invalid_projects"] += 1
        if proj is None:
            return result("trivial", counters=counters, note="no valid project in 12 attempts")
        for mode in ("nullglob", "nullset", "nullfail"):
            with bobapi.project(proj, query_mode=mode) as (rs, ps):
                g = Graph(ps.getRootPackage())
                ref = Ref(g)
                names = sorted(set(g.name.values()) - {""}) + ["nosuch"]
                varnames = sorted({v for e in g.env.values() for v in e} | {"LICENSE", "NOPE"})[:12]
                values = sorted({v for e in g.env.values() for v in e.values() if "'" not in v and '"' not in v and "\\" not in v and "$" not in v} | {"GPL", "1", ""})[:12]
                allnodes = set(g.name)
                for qi in range(case["queries"] // 3):
                    qg = QGen(rnd, names, varnames, values)
                    q = qg.path(2, top=rnd.random() < 0.8)
                    text = q["text"]
                    alias_used = False
                    if not q["abs"] and rnd.random() < 0.3 and model.get("aliases"):
                        # relative query whose first step is an alias name: substituted once
                        text = "myroot" + ("/" + text if text else "")
                        q = dict(q, steps=[{"axis": "child", "test": names and sorted(model["recipes"])[0] or "", "pred": None}] + q["steps"])
                        q["steps"][0]["test"] = model["aliases"]["myroot"]
                        alias_used = True
                    counters["queries"] += 1
                    if any(st.get("pred") is not None for st in q["steps"]):
                        counters["predicate_queries"] += 1
                    try:
                        expect, empty_info = first_empty_policy(ref, dict(q, abs=True))
                    except RecursionError:
                        continue
                    expect_error = None          # None: must not raise; True: must raise; "either"
                    if empty_info is not None:
                        if mode == "nullset":
                            expect_error = None
                        elif not empty_info["complex"]:
                            expect_error = "either" if (empty_info["ambiguous"] and mode == "nullglob") else True
                        else:
                            expect_error = True if mode == "nullfail" else None
                    ctx = {"query": text, "mode": mode, "alias": alias_used, "graph_nodes": len(allnodes)}
                    for warm in (False, True):
                        if warm:
                            counters["warm_db_queries"] += 1
                        for query_all in (False, True):
                            try:
                                pk = list(ps.queryPackagePath(text, query_all))
                                tr = list(ps.queryTreePath(text, query_all))
                                err = None
                            except BobError as e:
                                err = str(e)[:200]
                            except RecursionError:
                                err = "RecursionError"; expect_error = "either"
                            except Exception as e:
                                viol.append(violation("query-internal-exception", dict(ctx, exc="%s: %s" % (type(e).__name__, str(e)[:200]))))
                                break
                            if err is not None:
                                if expect_error is None:
                                    viol.append(violation("query-raised-although-mode-allows-empty-or-result-nonempty", dict(ctx, error=err, expected=sorted(g.name[k] for k in expect)[:8])))
                                else:
                                    counters["error_expected"] += 1
                                break
                            if expect_error is True:
                                viol.append(violation("empty-result-not-treated-as-error", dict(ctx, got=len(pk))))
                                break
                            # the virtual root is not a package: queryPackagePath never yields it, queryTreePath yields it with an empty stack
                            expect = expect - {g.root}
                            tr = [(s_, n_) for s_, n_ in tr if n_.key() != g.root]
                            got_pk = {p._getId() for p in pk}
                            got_tr = {n.key() for _, n in tr}
                            if got_pk != expect or got_tr != expect:
                                viol.append(violation("wrong-package-set", dict(ctx, queryAll=query_all, warm=warm,
                                            expected=sorted(g.name[k] for k in expect)[:10], got_packages=sorted(g.name.get(k, "?") for k in got_pk)[:10],
                                            missing=sorted(g.name[k] for k in expect - got_pk)[:6], surplus=sorted(g.name.get(k, "?") for k in got_pk - expect)[:6])))
                                break
                            if not query_all and (len(pk) != len(got_pk) or len(tr) != len(got_tr)):
                                viol.append(violation("package-reported-twice-without-queryAll", dict(ctx, n=len(pk))))
                            # every reported stack: real edge path, ends in the reported package, accepted by the query
                            for stack, endkey in [(p.getStack(), p._getId()) for p in pk] + [(s, n.key()) for s, n in tr]:
                                counters["paths_checked"] += 1
                                nodes, directs, cur, okpath = [g.root], [], g.root, True
                                for nm in stack:
                                    if nm not in g.kids[cur]:
                                        okpath = False; break
                                    cur, dflag = g.kids[cur][nm]
                                    nodes.append(cur); directs.append(dflag)
                                if not okpath or cur != endkey:
                                    viol.append(violation("reported-path-is-not-a-real-path-to-the-result", dict(ctx, stack=stack)))
                                    break
                                if not ref.accepts(q["steps"], nodes, directs):
                                    # The package set is right and the stack is a real path to one of the results, but the path does not
                                    # pass through the query's steps: one mechanism (paths are rebuilt from a set of visited nodes).
                                    onpath = nodes_on_accepted_paths(ref, g, q["steps"], expect)
                                    viol.append(violation("reported-path-bypasses-query-steps", dict(ctx, stack=stack, queryAll=query_all,
                                                all_nodes_on_some_matching_path=(None if onpath is None else set(nodes) <= onpath))))
                                    break
                    if expect and expect != allnodes:
                        counters["nonempty_results"] += 1
                        shape = ",".join(sorted(f for f in qg.feat if not f.startswith("axis:child")))
                        sigs.add("%s|%s|n%d" % (mode, shape, min(len(expect), 3)))
                    if len(samples) < 3 and expect:
                        samples.append({"query": text, "mode": mode, "result": sorted(g.name[k] for k in expect)[:6]})
    seen = {}
    for v in viol:
        seen.setdefault(v["mechanism"], []).append(v)
    viol = [x for vs in seen.values() for x in vs[:2]]
    return result("held", sigs=sorted(sigs), counters=counters, violations=viol[:8], sample=samples)


LEVEL_TEXT = ("Exploration: thousands of generated queries per run over generated package graphs, each compared with a naive forward "
              "evaluator of the documented semantics (package sets), plus a step-by-step acceptance check of every reported path and the "
              "documented empty-result policy of the three query modes; cold and warm graph database.")
LEVEL_NOTE = "Trusts the harness' reading of bobpaths.rst/bob.rst and the Package API for graph structure, identity and environments."
TECHNIQUE = "reference-model runtime monitor (naive forward evaluator + path acceptance automaton) against queryPackagePath/queryTreePath, cold vs warm database"
