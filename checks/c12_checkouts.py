"""C12 Checkouts converge to the recipe and never destroy user work.

A local universe (bare upstream git repositories incl. a fork and an unrelated one, tarball / plain-file url sources in
several releases, import directories) and a history interleaving recipe SCM edits, upstream operations, user operations in
git source workspaces and Bob invocations (dev, dev --clean-checkout, clean, clean -s, clean --attic; nothing forced).

Oracle (b), after EVERY Bob invocation: every user artefact the harness created (uniquely tokenised dirty file content,
untracked / ignored file, local commit, commit on a private branch, commit on a detached HEAD that a ref or HEAD pointed to)
still exists somewhere below the project: file artefacts by content hash, commits reachable from a ref or HEAD of some
repository below the project.
Oracle (a), after every successful `bob dev`: each package workspace (minus the git directories the user touched since they
were created, identified by the inode of their .git) equals the workspace a brand-new project produces for the final
recipes (differential reference), and every untouched git directory sits on the commit an independent `git rev-parse`
on the upstream names.  A failing `bob dev` while no live workspace is touched and the brand-new project builds is a violation.
"""
import copy, hashlib, json, os, random, shutil, subprocess, tarfile, io, time
from lib import common, treecanon
from lib.common import result, violation

ID = "C12"
LEVEL = "exploration"
BATCH = 1
CASE_TIMEOUT = 1800
MIN_NONTRIVIAL = 25
REQUIRED_COUNTERS = ["histories", "bob_invocations", "recipe_scm_edits", "upstream_operations", "user_operations", "artefact_presence_checks",
                     "convergence_checks", "git_head_checks", "attic_moves_seen", "inline_switches_seen", "clean_src_deletions"]
RULE = ("per case one universe and one history of N steps (quick 8, thorough 16) over 2-3 packages with 1-3 SCMs each (git branch/tag/commit/"
        "branch+commit, url with/without digest, import; sibling and nested directories). distinct_nontrivial = distinct (recipe edit kind or user "
        "operation kind, following Bob invocation, outcome class: switched in place / moved to attic / kept / deleted / build refused) triples.")
ASSUMPTIONS = ["tags are immutable and upstream branches only fast-forward (no rebase:True histories)",
               "url sources are never changed in place upstream (a new release gets a new url), import sources use the default prune:True",
               "user artefacts are created in git source workspaces only; forced variants (-f, --force) are never run",
               "a new SCM directory never collides with an upstream file name"]

GITENV = None


def git(args, cwd, check=True):
    r = subprocess.run(["git"] + args, cwd=cwd, env=GITENV, stdout=subprocess.PIPE, stderr=subprocess.PIPE, text=True, errors="replace")
    if check and r.returncode:
        raise RuntimeError("git %s failed in %s: %s" % (" ".join(args), cwd, r.stderr[-300:]))
    return r.stdout.strip() if check else r


def plan(tier, seed):
    n = 6 if tier == "quick" else 600
    cases = [{"seed": common.subseed(seed, "c12", i), "steps": 8 if tier == "quick" else 16} for i in range(n)]
    for i in range(8 if tier == "quick" else 300):
        cases.append({"seed": common.subseed(seed, "c12d", i), "steps": 5 if tier == "quick" else 10, "directed": ["unused-package", "attic", "url-release", "branch-commit-move"][i % 4], "_first": i < 12})
    return cases


# ------------------------------------------------------------------ universe
class Universe:
    def __init__(self, rnd, base):
        self.rnd, self.base = rnd, base
        self.n = 0
        self.up = os.path.join(base, "up")
        os.makedirs(self.up)
        self.repos = {}          # name -> {"bare":..., "work":..., "branches": [...], "tags": [...], "commits": {branch: [ids]}}
        self.mkrepo("g0")
        self.fork("g1", "g0")
        self.mkrepo("g2")
        # url sources
        self.dl = os.path.join(base, "dl")
        self.rels = []
        for i in range(1, 4):
            self.mkrel(i)
        self.imps = []
        for n_ in ("ia", "ib"):
            d = os.path.join(base, "imp", n_); os.makedirs(os.path.join(d, "inc"))
            for k in range(3):
                open(os.path.join(d, "i%d.txt" % k), "w").write("%s-%d-%s\n" % (n_, k, self.tok()))
            open(os.path.join(d, "inc", "h.h"), "w").write("h-" + self.tok() + "\n")
            self.imps.append(d)

    def tok(self):
        self.n += 1
        return "%06x%d" % (self.rnd.getrandbits(24), self.n)

    def mkrepo(self, name):
        bare = os.path.join(self.up, name + ".git"); work = os.path.join(self.up, "w-" + name)
        os.makedirs(work)
        git(["init", "-q", "-b", "master", "."], work)
        open(os.path.join(work, ".gitignore"), "w").write("*.ign\n")
        os.makedirs(os.path.join(work, "sub"))
        for k in range(3):
            open(os.path.join(work, "f%d.txt" % k), "w").write("%s f%d %s\n" % (name, k, self.tok()))
        open(os.path.join(work, "sub", "s.txt"), "w").write("s " + self.tok() + "\n")
        git(["add", "-A"], work); git(["commit", "-q", "-m", "init " + name], work)
        git(["clone", "-q", "--bare", work, bare], self.up)
        git(["remote", "add", "origin", bare], work)
        self.repos[name] = {"bare": bare, "work": work, "branches": ["master"], "tags": [], "commits": {"master": [git(["rev-parse", "HEAD"], work)]}}
        self.commit(name, "master"); self.tag(name, "v1"); self.commit(name, "master")
        self.branch(name, "feat", "master"); self.commit(name, "master"); self.tag(name, "v2"); self.commit(name, "feat")

    def fork(self, name, of):
        src = self.repos[of]
        bare = os.path.join(self.up, name + ".git"); work = os.path.join(self.up, "w-" + name)
        git(["clone", "-q", "--bare", src["bare"], bare], self.up)
        git(["clone", "-q", bare, work], self.up)
        for b in src["branches"]:
            if b != "master":
                git(["checkout", "-q", "-b", b, "origin/" + b], work)
        git(["checkout", "-q", "master"], work)
        self.repos[name] = {"bare": bare, "work": work, "branches": list(src["branches"]), "tags": list(src["tags"]), "commits": copy.deepcopy(src["commits"])}
        self.commit(name, "master")

    def commit(self, name, branch, delete=False):
        r = self.repos[name]; w = r["work"]
        git(["checkout", "-q", branch], w)
        k = self.rnd.randrange(4)
        p = os.path.join(w, "f%d.txt" % k)
        if delete and os.path.exists(p) and k > 0:
            os.unlink(p)
        else:
            open(p, "a").write("%s %s\n" % (branch, self.tok()))
        if self.rnd.random() < 0.3:
            open(os.path.join(w, "sub", "n%s.txt" % self.tok()), "w").write("new\n")
        git(["add", "-A"], w); git(["commit", "-q", "-m", "c " + self.tok()], w)
        git(["push", "-q", "origin", branch], w)
        c = git(["rev-parse", "HEAD"], w)
        r["commits"].setdefault(branch, []).append(c)
        return c

    def tag(self, name, tag, annotated=None):
        r = self.repos[name]; w = r["work"]
        git(["checkout", "-q", "master"], w)
        if annotated if annotated is not None else self.rnd.random() < 0.5:
            git(["tag", "-a", "-m", "rel " + tag, tag], w)
        else:
            git(["tag", tag], w)
        git(["push", "-q", "origin", "refs/tags/" + tag], w)
        r["tags"].append(tag)

    def branch(self, name, branch, frm):
        r = self.repos[name]; w = r["work"]
        git(["checkout", "-q", "-b", branch, frm], w)
        git(["push", "-q", "origin", branch], w)
        r["branches"].append(branch)
        r["commits"][branch] = list(r["commits"][frm])

    def mkrel(self, i):
        d = os.path.join(self.dl, "rel-%d" % i); os.makedirs(d)
        # tarball: later releases drop and add members
        members = {"pkg/a.txt": "a %d\n" % i, "pkg/common.txt": "common\n", "pkg/only%d.txt" % i: "only %s\n" % self.tok()}
        if i % 2:
            members["pkg/odd.txt"] = "odd\n"
        buf = io.BytesIO()
        with tarfile.open(fileobj=buf, mode="w:gz") as t:
            for n_, c in sorted(members.items()):
                ti = tarfile.TarInfo(n_); ti.size = len(c); ti.mtime = 1000000000 + i; ti.mode = 0o644
                t.addfile(ti, io.BytesIO(c.encode()))
        open(os.path.join(d, "src.tgz"), "wb").write(buf.getvalue())
        open(os.path.join(d, "data.txt"), "w").write("data release %d %s\n" % (i, self.tok()))
        # newer releases deliberately carry OLDER mtimes (a copy "only if younger" would keep the stale file)
        t0 = 1500000000 - i * 86400
        for f in ("src.tgz", "data.txt"):
            os.utime(os.path.join(d, f), (t0, t0))
        self.rels.append(d)

    def rev_commit(self, spec):
        """commit id the upstream names for this git spec (independent of Bob)"""
        bare = spec["url"]
        if spec.get("commit"):
            return spec["commit"]
        ref = "refs/tags/%s^{commit}" % spec["tag"] if spec.get("tag") else "refs/heads/" + spec["branch"]
        r = git(["--git-dir", bare, "rev-parse", "--verify", "-q", ref], self.up, check=False)
        return r.stdout.strip() if r.returncode == 0 else None


# ------------------------------------------------------------------ project
def yaml_scm(s):
    return "  - " + "\n    ".join("%s: %s" % (k, json.dumps(v)) for k, v in s.items() if not k.startswith("_"))


def write_project(proj, st):
    os.makedirs(os.path.join(proj, "recipes"), exist_ok=True)
    open(os.path.join(proj, "config.yaml"), "w").write('bobMinimumVersion: "0.25"\n' + ("policies:\n  gitCommitOnBranch: True\n" if st.get("commitOnBranch") else ""))
    for f in os.listdir(os.path.join(proj, "recipes")):
        os.unlink(os.path.join(proj, "recipes", f))
    open(os.path.join(proj, "recipes", "root.yaml"), "w").write(
        "root: True\n" + ("depends: [%s]\n" % ", ".join(st["deps"]) if st["deps"] else "") + 'buildScript: "true"\npackageScript: "true"\n')
    for p, scms in st["pkgs"].items():
        open(os.path.join(proj, "recipes", p + ".yaml"), "w").write(
            ("checkoutSCM:\n" + "\n".join(yaml_scm(s) for s in scms) + "\n" if scms else "") + 'buildScript: "true"\npackageScript: "true"\n')


def ws_of(proj, p):
    return os.path.join(proj, "dev", "src", p, "1", "workspace")


def new_git(u, rnd, d, repo=None):
    name = repo or rnd.choice(list(u.repos))
    s = {"scm": "git", "url": u.repos[name]["bare"], "dir": d, "_repo": name}
    set_rev(u, rnd, s)
    return s


def set_rev(u, rnd, s, kind=None):
    r = u.repos[s["_repo"]]
    for k in ("branch", "tag", "commit"):
        s.pop(k, None)
    kind = kind or rnd.choice(["branch", "branch", "tag", "commit", "branch+commit", "branch+tag"])
    if kind == "branch":
        s["branch"] = rnd.choice(r["branches"])
    elif kind == "tag":
        s["tag"] = rnd.choice(r["tags"])
    elif kind == "commit":
        b = rnd.choice(r["branches"]); s["commit"] = rnd.choice(r["commits"][b])
    elif kind in ("branch+commit", "branch+commit:master"):
        b = rnd.choice(r["branches"]) if kind == "branch+commit" else "master"; s["branch"] = b; s["commit"] = rnd.choice(r["commits"][b])
    else:
        s["branch"] = "master"; s["tag"] = rnd.choice(r["tags"])
    return kind


def new_url(u, rnd, d):
    rel = rnd.choice(u.rels); f = rnd.choice(["src.tgz", "data.txt"])
    s = {"scm": "url", "url": os.path.join(rel, f), "dir": d, "_file": f}
    if rnd.random() < 0.4:
        s["digestSHA256"] = hashlib.sha256(open(s["url"], "rb").read()).hexdigest()
    return s


def new_import(u, rnd, d):
    return {"scm": "import", "url": rnd.choice(u.imps), "dir": d}


def new_scm(u, rnd, d):
    return rnd.choice([new_git, new_git, new_git, new_url, new_import])(u, rnd, d)


# ------------------------------------------------------------------ case
def run_case(case):
    global GITENV
    GITENV = common.clean_env()
    rnd = random.Random(case["seed"])
    counters = dict.fromkeys(REQUIRED_COUNTERS + ["clean_attic_deletions", "clean_attic_runs"], 0)
    viol, sigs, trace = [], set(), []
    with common.scratch("c12") as base:
        u = Universe(rnd, base)
        proj = os.path.join(base, "proj")
        dcount = [0]
        def newdir(st, p, nested_ok=True):
            dcount[0] += 1
            scms = st["pkgs"][p]
            hosts = [s["dir"] for s in scms if s["scm"] in ("git",) and "/" not in s["dir"]]
            if nested_ok and hosts and rnd.random() < 0.3:
                return rnd.choice(hosts) + "/nest%d" % dcount[0]
            return "d%d" % dcount[0]
        st = {"deps": [], "pkgs": {}, "commitOnBranch": rnd.random() < 0.6}
        directed = case.get("directed")
        for i in range(rnd.choice([2, 2, 3])):
            p = "p%d" % i
            st["pkgs"][p] = []; st["deps"].append(p)
            for j in range(rnd.choice([1, 1, 2, 3]) if not (directed and i == 0) else (1 if directed == "branch-commit-move" else rnd.choice([2, 3]))):
                if directed == "branch-commit-move" and i == 0:
                    st["commitOnBranch"] = True
                    s_ = new_git(u, rnd, newdir(st, p, False), rnd.choice(["g0", "g1"])); set_rev(u, rnd, s_, rnd.choice(["branch+commit:master", "branch+tag"])); st["pkgs"][p].append(s_)
                elif directed and i == 0:        # several git directories side by side (or nested) in one source workspace
                    st["pkgs"][p].append(new_git(u, rnd, newdir(st, p, j > 0)))
                else:
                    st["pkgs"][p].append(new_scm(u, rnd, newdir(st, p)) if (i, j) != (0, 0) else new_git(u, rnd, newdir(st, p, False), "g0"))
        if rnd.random() < 0.7:
            s_ = new_url(u, rnd, newdir(st, "p1", False)); s_.pop("digestSHA256", None); st["pkgs"]["p1"].append(s_)
        if directed == "url-release":
            s_ = new_url(u, rnd, newdir(st, "p0", False)); s_.pop("digestSHA256", None); st["pkgs"]["p0"].append(s_)
        artefacts = []            # user artefacts
        touched = set()           # inodes of .git directories the user worked in
        counters["histories"] = 1

        def live_git_dirs():
            out = []
            for p in st["deps"]:
                for s in st["pkgs"][p]:
                    d = os.path.join(ws_of(proj, p), s["dir"])
                    if s["scm"] == "git" and os.path.isdir(os.path.join(d, ".git")):
                        out.append((p, s, d))
            return out

        def ino(d):
            try:
                return os.stat(os.path.join(d, ".git")).st_ino
            except OSError:
                return None

        def all_repos():
            out = []
            for dp, dn, fn in os.walk(os.path.join(proj, "dev")):
                if ".git" in dn:
                    out.append(dp); dn.remove(".git")
            return out

        def file_hashes():
            hs = {}
            for dp, dn, fn in os.walk(os.path.join(proj, "dev")):
                if ".git" in dn:
                    dn.remove(".git")
                for f in fn:
                    p_ = os.path.join(dp, f)
                    try:
                        if os.path.isfile(p_) and os.path.getsize(p_) < 65536:
                            hs.setdefault(hashlib.sha1(open(p_, "rb").read()).hexdigest(), p_)
                    except OSError:
                        pass
            return hs

        def check_artefacts(after, lastop):
            hs = file_hashes(); repos = all_repos()
            lost = []
            for a in artefacts:
                if a.get("gone"):
                    continue
                counters["artefact_presence_checks"] += 1
                if a["kind"] == "file":
                    ok = a["hash"] in hs
                else:
                    ok = False
                    for r_ in repos:
                        if git(["cat-file", "-e", a["id"] + "^{commit}"], r_, check=False).returncode:
                            continue
                        if git(["for-each-ref", "--contains", a["id"]], r_, check=False).stdout.strip() or \
                           git(["merge-base", "--is-ancestor", a["id"], "HEAD"], r_, check=False).returncode == 0:
                            ok = True; break
                if not ok:
                    a["gone"] = True
                    lost.append(a)
            for a in lost:
                mech = "user-work-lost"
                if a["what"] == "ignored-file":
                    mech = "ignored-untracked-file-deleted-by-clean" if after[0] == "clean" else "ignored-untracked-file-lost"
                viol.append(violation(mech, {"artefact": a["what"], "created_in": a["where"], "lost_after": " ".join(after), "previous_operation": lastop,
                                             "history": trace[-8:]}))
            return lost

        def bob(args):
            counters["bob_invocations"] += 1
            r = common.bob(args, cwd=proj, timeout=300)
            out = r.stdout + r.stderr
            counters["attic_moves_seen"] += out.count("ATTIC")
            counters["inline_switches_seen"] += out.count("SWITCH")
            return r, out

        def reference(tag):
            """brand-new project for the current recipes"""
            R = os.path.join(base, "ref", tag, "proj")
            write_project(R, st)
            r = common.bob(["dev", "root"], cwd=R, timeout=300)
            return R, r

        def check_convergence(r, out, lastop):
            R, rr = reference("r%d" % counters["bob_invocations"])
            try:
                if rr.returncode != 0:
                    sigs.add("%s|dev|reference-refused" % lastop)
                    return
                if r.returncode != 0:
                    if not any(ino(d) in touched for _, _, d in live_git_dirs()):
                        viol.append(violation("build-refused-although-fresh-project-builds", {"previous_operation": lastop, "history": trace[-8:], "output": out[-600:]}))
                    else:
                        sigs.add("%s|dev|refused-touched" % lastop)
                    return
                for p in st["deps"]:
                    ws, rws = ws_of(proj, p), ws_of(R, p)
                    if not st["pkgs"][p]:
                        continue
                    if not os.path.isdir(ws) or not os.path.isdir(rws):
                        viol.append(violation("source-workspace-missing", {"package": p, "exists": os.path.isdir(ws), "reference_exists": os.path.isdir(rws)})); continue
                    skip = [os.path.relpath(d, ws) for pp, s, d in live_git_dirs() if pp == p and ino(d) in touched]
                    def filt(c):
                        return [e for e in c if not any(os.fsdecode(e[0]) == x or os.fsdecode(e[0]).startswith(x + "/") for x in skip)]
                    a, b = filt(treecanon.canon(ws, with_perm=False)), filt(treecanon.canon(rws, with_perm=False))
                    counters["convergence_checks"] += 1
                    if a != b:
                        da = {e[0]: e for e in a}; db = {e[0]: e for e in b}
                        diff = [(os.fsdecode(k), "workspace" if k in da else None, "fresh" if k in db else None) for k in sorted(set(da) | set(db)) if da.get(k) != db.get(k)][:8]
                        viol.append(violation("untouched-workspace-differs-from-fresh-checkout", {"package": p, "scms": [pub(s) for s in st["pkgs"][p]], "previous_operation": lastop,
                                              "differences(path, in workspace, in fresh checkout)": diff, "history": trace[-8:]}))
                    for pp, s, d in live_git_dirs():
                        if pp != p or ino(d) in touched:
                            continue
                        want = u.rev_commit(s)
                        have = git(["rev-parse", "HEAD"], d, check=False).stdout.strip()
                        counters["git_head_checks"] += 1
                        if want and have != want:
                            viol.append(violation("untouched-git-checkout-not-on-the-commit-the-recipe-names", {"package": p, "scm": pub(s), "HEAD": have, "upstream": want,
                                                  "previous_operation": lastop, "history": trace[-8:]}))
            finally:
                common.rmtree(os.path.dirname(R))

        def pub(s):
            return {k: (v if k not in ("url",) else os.path.relpath(v, base)) for k, v in s.items() if not k.startswith("_")}

        # ---------------- operations
        def op_recipe(force=None):
            p = rnd.choice(list(st["pkgs"])) if force is None else force[1]
            scms = st["pkgs"][p]
            kinds = ["add"]
            if scms:
                kinds += ["remove", "dir", "replace"]
            if any(s["scm"] == "git" for s in scms):
                kinds += ["git-rev"] * 4 + ["git-url"] * 2
            if any(s["scm"] == "url" for s in scms):
                kinds += ["url-url"] * 8 + ["url-digest"]
            if any(s["scm"] == "import" for s in scms):
                kinds += ["import-url"]
            kinds += ["drop-package"] * 4 if p in st["deps"] and len(st["deps"]) > 1 else ["readd-package"] * 2
            k = rnd.choice(kinds) if force is None else force[0]
            if k == "add" and len(scms) < 4:
                scms.append(new_scm(u, rnd, newdir(st, p)))
            elif k == "remove":
                s = rnd.choice(scms); scms.remove(s)
                for n_ in [x for x in scms if x["dir"].startswith(s["dir"] + "/")]:
                    scms.remove(n_)
            elif k == "dir":
                s = rnd.choice(scms); old = s["dir"]; dcount[0] += 1; s["dir"] = "m%d" % dcount[0]
                for n_ in scms:
                    if n_["dir"].startswith(old + "/"):
                        n_["dir"] = s["dir"] + n_["dir"][len(old):]
            elif k == "replace":
                i = rnd.randrange(len(scms)); old = scms[i]
                if not any(x["dir"].startswith(old["dir"] + "/") for x in scms):
                    scms[i] = new_scm(u, rnd, old["dir"])
            elif k == "git-rev":
                s = rnd.choice([s for s in scms if s["scm"] == "git"]); k = "git-rev:" + set_rev(u, rnd, s, force[2] if force is not None and len(force) > 2 else None)
            elif k == "git-url":
                s = rnd.choice([s for s in scms if s["scm"] == "git"])
                s["_repo"] = rnd.choice([r for r in u.repos if r != s["_repo"]]); s["url"] = u.repos[s["_repo"]]["bare"]
                nr = u.repos[s["_repo"]]
                if s.get("commit") or s["_repo"] == "g2" or (s.get("tag") and s["tag"] not in nr["tags"]) or (s.get("branch") and s["branch"] not in nr["branches"]):
                    set_rev(u, rnd, s)
                k = "git-url:" + ("fork" if s["_repo"] != "g2" else "unrelated")
            elif k == "url-url":
                s = rnd.choice([s for s in scms if s["scm"] == "url"])
                s["url"] = os.path.join(rnd.choice([r for r in u.rels if not s["url"].startswith(r + "/")]), s["_file"])
                if "digestSHA256" in s:
                    s["digestSHA256"] = hashlib.sha256(open(s["url"], "rb").read()).hexdigest()
            elif k == "url-digest":
                s = rnd.choice([s for s in scms if s["scm"] == "url"])
                if "digestSHA256" in s:
                    del s["digestSHA256"]
                else:
                    s["digestSHA256"] = hashlib.sha256(open(s["url"], "rb").read()).hexdigest()
            elif k == "import-url":
                s = rnd.choice([s for s in scms if s["scm"] == "import"])
                s["url"] = rnd.choice([i for i in u.imps if i != s["url"]])
            elif k == "drop-package":
                st["deps"].remove(p)
            elif k == "readd-package":
                if p not in st["deps"]:
                    st["deps"].append(p)
            write_project(proj, st)
            counters["recipe_scm_edits"] += 1
            return "recipe:" + k

        def op_upstream():
            k = rnd.choice(["commit", "commit", "commit", "tag", "branch", "import-mod", "import-del"])
            name = rnd.choice(list(u.repos))
            if k == "commit":
                u.commit(name, rnd.choice(u.repos[name]["branches"]), delete=rnd.random() < 0.2)
            elif k == "tag":
                u.tag(name, "v%d" % (len(u.repos[name]["tags"]) + 1))
            elif k == "branch":
                b = "b%d" % len(u.repos[name]["branches"])
                u.branch(name, b, rnd.choice(["master", "feat"])); u.commit(name, b)
            else:
                d = rnd.choice(u.imps)
                fs = sorted(f for f in os.listdir(d) if f.endswith(".txt"))
                if k == "import-del" and len(fs) > 1:
                    os.unlink(os.path.join(d, fs[-1]))
                else:
                    open(os.path.join(d, rnd.choice(fs + ["n%s.txt" % u.tok()])), "a").write("mod " + u.tok() + "\n")
            counters["upstream_operations"] += 1
            return "upstream:" + k

        def op_user(force=None):
            cands = live_git_dirs()
            if force is not None:
                cands = [c_ for c_ in cands if c_[0] == force[1]]
            if not cands:
                return None
            p, s, d = rnd.choice(cands)
            k = rnd.choice(["dirty", "untracked", "ignored", "commit", "private-branch", "detach", "detach+commit", "untracked-dir"]) if force is None else force[0]
            where = "%s:%s" % (p, s["dir"])
            t = u.tok()
            def reg_file(path, what):
                artefacts.append({"kind": "file", "hash": hashlib.sha1(open(path, "rb").read()).hexdigest(), "what": what, "where": where})
            if k == "dirty":
                fs = [f for f in os.listdir(d) if f.startswith("f") and os.path.isfile(os.path.join(d, f))]
                if not fs:
                    return None
                f = os.path.join(d, rnd.choice(fs)); open(f, "a").write("user edit %s\n" % t); reg_file(f, "dirty-tracked-file")
                # an earlier artefact in the same file is superseded by the user themselves
            elif k == "untracked":
                f = os.path.join(d, "notes-%s.txt" % t); open(f, "w").write("precious %s\n" % t); reg_file(f, "untracked-file")
            elif k == "untracked-dir":
                os.makedirs(os.path.join(d, "mine-" + t, "deep")); f = os.path.join(d, "mine-" + t, "deep", "x.txt"); open(f, "w").write("deep %s\n" % t); reg_file(f, "untracked-file-in-new-directory")
            elif k == "ignored":
                f = os.path.join(d, "local-%s.ign" % t); open(f, "w").write("ignored but mine %s\n" % t); reg_file(f, "ignored-file")
            elif k in ("commit", "private-branch", "detach+commit", "detach"):
                if git(["status", "--porcelain", "--untracked-files=no"], d, check=False).stdout.strip():
                    return None           # keep the dirty artefacts as they are
                if k.startswith("detach") and git(["symbolic-ref", "-q", "HEAD"], d, check=False).returncode != 0 and \
                   not git(["for-each-ref", "--contains", "HEAD"], d, check=False).stdout.strip():
                    return None           # HEAD is the only holder of its commit: moving it away would be the USER orphaning the commit
                if k == "private-branch":
                    git(["checkout", "-q", "-b", "mine-" + t], d)
                elif k.startswith("detach"):
                    cs = git(["rev-list", "--max-count=4", "HEAD"], d).split()
                    git(["checkout", "-q", "--detach", rnd.choice(cs)], d)
                if k != "detach":
                    f = os.path.join(d, "work-%s.txt" % t); open(f, "w").write("committed %s\n" % t)
                    git(["add", os.path.basename(f)], d); git(["commit", "-q", "-m", "local " + t], d)
                    artefacts.append({"kind": "commit", "id": git(["rev-parse", "HEAD"], d), "what": "local-commit(%s)" % k, "where": where})
            # dirty-file artefacts of the same file that the user overwrote are retired by the user, not by Bob
            hs = file_hashes()
            for a in artefacts:
                if a["kind"] == "file" and a["what"] == "dirty-tracked-file" and a["hash"] not in hs:
                    a["gone"] = True
            touched.add(ino(d))
            counters["user_operations"] += 1
            return "user:" + k + "@" + where

        def op_bob(lab):
            if lab == "recipe:drop-package" and rnd.random() < 0.7:
                return "clean -s"
            if counters["attic_moves_seen"] > counters["clean_attic_runs"] and rnd.random() < 0.3:
                counters["clean_attic_runs"] += 1
                return "clean --attic"
            k = rnd.choice(["dev"] * 5 + ["dev --clean-checkout"] * 2 + ["clean -s"] * 2 + ["clean --attic", "clean", "dev --build-only"])
            return k

        # ---------------- history
        write_project(proj, st)
        r, out = bob(["dev", "root"])
        trace.append("init " + json.dumps({p: [pub(s) for s in v] for p, v in st["pkgs"].items()}))
        if r.returncode != 0:
            return result("trivial", counters=counters, note="initial build failed: " + out[-300:])
        check_convergence(r, out, "init")
        lastop = "init"
        KNOWN_CONTINUE = ("ignored-untracked-file-deleted-by-clean",)      # the history goes on after this one (the artefact is retired)
        fatal = lambda: any(v["mechanism"] not in KNOWN_CONTINUE for v in viol)
        forced = []
        if directed == "branch-commit-move":
            # gitCommitOnBranch: the user commits on the configured branch, then the recipe names another commit / tag of that branch (twice)
            mv = lambda: ("recipe", ("git-rev", "p0", rnd.choice(["branch+commit:master", "branch+tag"])), ["dev"])
            forced = [("user", (rnd.choice(["commit", "commit", "dirty", "untracked"]), "p0"), [] if rnd.random() < 0.6 else ["dev"]), mv(), mv(), ("upstream", None, ["dev"]), mv()]
        elif directed == "url-release":
            # a url source without digest moves to another release (same file name), twice, with builds in between
            forced = [("recipe", ("url-url", "p0"), ["dev"]), ("upstream", None, ["dev"]), ("recipe", ("url-url", "p0"), ["dev"])]
        elif directed == "unused-package":
            # user work in ONE of several git directories of p0, then the package becomes unused and sources are cleaned
            forced = [("user", (rnd.choice(["dirty", "untracked", "commit", "private-branch", "untracked-dir", "detach+commit"]), "p0"), [rnd.choice(["dev", "dev --build-only"])] if rnd.random() < 0.5 else []),
                      ("recipe", ("drop-package", "p0"), ["clean -s"] if rnd.random() < 0.6 else ["dev", "clean -s"]),
                      ("recipe", ("readd-package", "p0"), ["dev"])]
        elif directed == "attic":
            # user work, then the SCM is re-specified so that the directory must move to the attic, then the attic is cleaned
            forced = [("user", (rnd.choice(["dirty", "untracked", "commit", "private-branch", "untracked-dir", "detach+commit"]), "p0"), []),
                      ("recipe", (rnd.choice(["git-url", "replace", "remove", "dir"]), "p0"), ["dev", "clean --attic"]),
                      ("upstream", None, ["dev --clean-checkout", "clean --attic"])]
        for step in range(case["steps"]):
            if fatal():
                break
            fb = None
            if forced:
                kind, force, fb = forced.pop(0)
                lab = {"recipe": op_recipe, "upstream": lambda force=None: op_upstream(), "user": op_user}[kind](force)
            else:
                kind = rnd.choice(["recipe", "recipe", "upstream", "user", "user"])
                lab = {"recipe": op_recipe, "upstream": op_upstream, "user": op_user}[kind]()
            if lab is None:
                continue
            trace.append(lab)
            lastop = lab
            for b in (fb if fb is not None else [None] * rnd.choice([1, 1, 2])):
                b = b or op_bob(lab)
                before_dirs = {d for d in all_repos()}
                r, out = bob(b.split() + (["root"] if b.startswith("dev") else ["-v"]))
                trace.append("bob " + b + " -> rc=%d" % r.returncode)
                lost = check_artefacts(b.split(), lastop)
                gone_dirs = before_dirs - set(all_repos())
                if b.startswith("clean"):
                    counters["clean_src_deletions" if b == "clean -s" else "clean_attic_deletions"] += sum(1 for l in out.splitlines() if l.startswith("rm ") and ("/src/" in l))
                if b in ("dev", "dev --clean-checkout"):
                    check_convergence(r, out, lastop)
                outcome = "refused" if r.returncode else ("attic" if "ATTIC" in out else ("switch" if "SWITCH" in out else ("deleted" if b.startswith("clean") and "rm " in out else "kept")))
                sigs.add("%s|%s|%s" % (lab.split("@")[0], b, outcome))
                if fatal():
                    break
    uniq = {}
    for v in viol:
        uniq.setdefault(v["mechanism"], v)
    return result("held", sigs=sorted(sigs), counters=counters, violations=list(uniq.values())[:4], sample={"trace": trace[-12:]})


LEVEL_TEXT = ("Exploration: seeded histories over a local git/url/import universe; user artefacts are tokenised and searched for after every "
              "Bob invocation, untouched workspaces are compared with a brand-new project's checkout and with upstream commit ids.")
LEVEL_NOTE = "No svn/cvs, no network transports, no submodules, no rebase:True; url sources are local files."
TECHNIQUE = "history monitor: artefact-conservation checker over all repositories below the project + differential comparison with a fresh checkout + independent git rev-parse of the upstream"
