"""C05 Failed or killed builds never poison the workspace  (fault enumeration).

For a project state S0 (fully built) and an edited state S1 the invocation that would bring the workspace from S0 to S1 is
aborted in every way the property lists: (a) each executing step script fails after partial output, (b) Bob is SIGKILLed while
each step script runs, (c) Bob is SIGKILLed at persistent-state save points (audit hook on the commit rename; all of them in
the thorough tier, a seeded sample in quick).  After removing the stale lock a normal invocation must succeed and every
package result must equal a clean build of S1.  Chains of two consecutive aborts are included.
"""
import copy, os, random, shutil
from lib import common, projgen, edits, e2e, treecanon
from lib.common import result, violation

ID = "C05"
LEVEL = "fault_enumeration"
BATCH = 1
CASE_TIMEOUT = 2400
MIN_NONTRIVIAL = 20
REQUIRED_COUNTERS = ["aborted_invocations", "kill_at_state_save", "script_failures", "kills_during_script", "recoveries_compared", "abort_chains"]
RULE = ("per case: fixed-shape project (root, lib, base, tool provider, multiPackage, class; develop or release mode) built to S0, one or two "
        "seeded single-factor edits giving S1; the S0->S1 invocation is replayed from an identical snapshot of the workspace and aborted at "
        "every executing step (fail / kill) and at state-save points (count run gives K; quick: 10 sampled of K, thorough: all K). "
        "distinct_nontrivial = distinct (mode, edit, abort kind, abort point) combinations whose recovery was compared with the clean build.")
ASSUMPTIONS = ["partial output follows the incremental contract: the aborted script leaves a truncated copy of a file the successful run rewrites, "
               "plus a stray file only in package workspaces (which Bob promises to empty)",
               "SIGKILL = process crash (page cache survives); the stale lock file is removed before the next invocation as the error message instructs"]


QUICK_EDITS = {"dev": ["class-build-script", "lib-source-mod", "gen-checkout-script"],
               "build": ["mp-parent-build-script", "base-source-mod"]}


def plan(tier, seed):
    cases = []
    if tier == "quick":
        # one case per (mode, edit class): script change, source change, variable change, tool change
        for mode in ("dev", "build"):
            for i, label in enumerate(QUICK_EDITS[mode]):
                # the abort points of one project state are spread over 3 workers (each rebuilds the state itself: the subject must
                # live at one fixed path per worker)
                for k in range(3):
                    cases.append({"seed": common.subseed(seed, "c05", mode, i), "mode": mode, "edit": label, "kill_samples": 2, "step_samples": None, "slice": [k, 3]})
        cases += [{"seed": common.subseed(seed, "c05x", mode), "mode": mode, "extract": True, "_first": True} for mode in ("dev", "build")]
        return cases
    for i in range(20):
        for k in range(4):      # all abort points of one project state, spread over 4 workers
            cases.append({"seed": common.subseed(seed, "c05", i), "mode": ["dev", "build"][i % 2], "kill_samples": None, "step_samples": None, "slice": [k, 4]})
    cases += [{"seed": common.subseed(seed, "c05x", i), "mode": ["dev", "build"][i % 2], "extract": True, "_first": i < 2} for i in range(8)]
    return cases


def snapshot_copy(src, dst):
    shutil.rmtree(dst, ignore_errors=True)
    shutil.copytree(src, dst, symlinks=True)


def run_extract(case):
    """A url SCM whose archive extraction is cut short: the extractor fails, or Bob is killed, after only a part of the members
    was unpacked (a `tar` wrapper first in PATH does that when the harness asks).  The next normal invocation must succeed and give
    the clean build's result.  Also with a previously complete workspace whose recipe moved to another archive."""
    import hashlib, io, tarfile
    rnd = random.Random(case["seed"])
    counters = dict.fromkeys(REQUIRED_COUNTERS, 0)
    counters["extractions_cut_short"] = 0
    viol, sigs = [], set()
    mode = case["mode"]
    with common.scratch("c05x") as base:
        ctl = os.path.join(base, "ctl"); os.makedirs(ctl)
        shim = os.path.join(base, "shim"); os.makedirs(shim)
        real_tar = shutil.which("tar")
        open(os.path.join(shim, "tar"), "w").write(
            "#!/bin/sh\n"
            "if [ -e \"$VERIF_CTL/tar.kill\" ]; then %s \"$@\" --exclude='*late*' ; kill -9 \"$(cat \"$VERIF_CTL/bobpid\")\" ; sleep 30 ; exit 1 ; fi\n"
            "if [ -e \"$VERIF_CTL/tar.fail\" ]; then %s \"$@\" --exclude='*late*' ; echo 'tar: unexpected end of archive' >&2 ; exit 2 ; fi\n"
            "exec %s \"$@\"\n" % (real_tar, real_tar, real_tar))
        os.chmod(os.path.join(shim, "tar"), 0o755)
        env = {"VERIF_CTL": ctl, "PATH": shim + ":" + common.clean_env()["PATH"]}
        xargs = ["-e", "VERIF_CTL"]
        def mkrel(i):
            d = os.path.join(base, "dl", "rel-%d" % i); os.makedirs(d)
            buf = io.BytesIO()
            with tarfile.open(fileobj=buf, mode="w:gz") as t:
                for n_ in ["pkg/early-a.txt", "pkg/early-b.txt", "pkg/late-c.txt", "pkg/sub/late-d.txt"]:
                    c = ("%s release %d %s\n" % (n_, i, projgen.new_tok(rnd))).encode()
                    ti = tarfile.TarInfo(n_); ti.size = len(c); ti.mode = 0o644; ti.mtime = 1500000000
                    t.addfile(ti, io.BytesIO(c))
            f = os.path.join(d, "src.tgz"); open(f, "wb").write(buf.getvalue())
            return f
        rels = [mkrel(1), mkrel(2)]
        def write(proj, rel):
            os.makedirs(os.path.join(proj, "recipes"), exist_ok=True)
            open(os.path.join(proj, "config.yaml"), "w").write('bobMinimumVersion: "1.0"\n')
            open(os.path.join(proj, "recipes", "root.yaml"), "w").write(
                "root: True\ncheckoutSCM:\n  scm: url\n  url: %s\n  digestSHA256: %s\n  dir: src\n"
                "buildScript: |\n  cp -a \"$1/src/pkg\" .\npackageScript: |\n  cp -a \"$1/pkg\" .\n" % (rel, hashlib.sha256(open(rel, "rb").read()).hexdigest()))
        flag = "dev" if mode == "dev" else "build"
        def bob(proj):
            return common.bob([flag, "root"] + xargs, cwd=proj, env=env, timeout=300)
        def result_dir(proj, r):
            import re as _re
            m_ = _re.search(r"Build result is in (\S+)", r.stdout or "")
            return os.path.join(proj, m_.group(1)) if m_ else None
        refs = []
        for i, rel in enumerate(rels):
            C = os.path.join(base, "C%d" % i, "p"); write(C, rel)
            rc = bob(C)
            if rc.returncode != 0 or not result_dir(C, rc):
                return result("inconclusive", counters=counters, note="clean build failed: " + rc.tail(300))
            refs.append((treecanon.canon(result_dir(C, rc)), result_dir(C, rc)))
        n = 0
        for start in ("fresh", "complete-workspace-of-other-release"):
            for kind in ("kill", "fail"):
                n += 1
                W = os.path.join(base, "W%d" % n, "p")
                target = 0
                if start != "fresh":
                    write(W, rels[0]); r0 = bob(W)
                    if r0.returncode != 0:
                        return result("inconclusive", counters=counters, note="first build failed: " + r0.tail(300))
                    target = 1
                write(W, rels[target])
                open(os.path.join(ctl, "tar." + kind), "w").close()
                r1 = bob(W)
                counters["aborted_invocations"] += 1; counters["extractions_cut_short"] += 1
                counters["kills_during_script" if kind == "kill" else "script_failures"] += 1
                os.unlink(os.path.join(ctl, "tar." + kind))
                ctx = {"mode": mode, "abort": "extractor-" + kind, "start": start, "point": "url-scm-extract"}
                if r1.returncode == 0:
                    viol.append(violation("build-succeeded-although-extraction-was-cut-short", ctx)); continue
                lock = os.path.join(W, ".bob-state.lock")
                if os.path.exists(lock):
                    os.unlink(lock)
                r2 = bob(W)
                if r2.returncode != 0:
                    viol.append(violation("invocation-after-abort-failed", dict(ctx, output=r2.tail(500)))); continue
                counters["recoveries_compared"] += 1
                rd = result_dir(W, r2)
                if rd is None or treecanon.canon(rd) != refs[target][0]:
                    viol.append(violation("result-after-abort-differs-from-clean-build", dict(ctx, differences=treecanon.diff(rd, refs[target][1], 6) if rd else "no result")))
                sigs.add("%s|url-extract|%s|%s" % (mode, kind, start))
    return result("held", sigs=sorted(sigs), counters=counters, violations=viol[:3], sample={"mode": mode, "kind": "url-extract"})


def run_case(case):
    if case.get("extract"):
        return run_extract(case)
    rnd = random.Random(case["seed"])
    counters = dict.fromkeys(REQUIRED_COUNTERS, 0)
    viol, sigs = [], set()
    mode = case["mode"]
    model0 = projgen.focused_model(rnd)
    model0["ctl"] = True
    # a script-only deterministic checkout (no SCM): its re-execution is decided by the recorded directory state alone
    k0 = lambda: {k: [] for k in projgen.KINDS}
    model0["recipes"]["gen"] = {"env": {}, "vars": k0(), "weak": k0(), "cdet": True, "tok": {"checkout": projgen.new_tok(rnd), "build": projgen.new_tok(rnd), "package": projgen.new_tok(rnd)},
                                "tools": k0(), "toolsWeak": k0(), "depends": []}
    model0["recipes"]["root"]["depends"].append({"name": "gen"})
    eds = projgen.focused_edits(rnd) + [("gen-checkout-script", lambda mm: mm["recipes"]["gen"]["tok"].__setitem__("checkout", projgen.new_tok(rnd)))]
    rnd.shuffle(eds)
    model1 = copy.deepcopy(model0)
    applied = []
    if case.get("edit"):
        eds = [e for e in eds if e[0] == case["edit"]] + [e for e in eds if e[0] != case["edit"]]
        chosen = eds[:1] + (eds[1:2] if rnd.random() < 0.3 else [])
    else:
        chosen = eds[:rnd.choice([1, 2])]
    for label, fn in chosen:
        fn(model1); applied.append(label)
    with common.scratch("c05") as base:
        ctl = os.path.join(base, "ctl"); os.makedirs(ctl)
        evlog = os.path.join(base, "ev.log")
        env = {"VERIF_CTL": ctl}
        xargs = ["-e", "VERIF_CTL"]
        # All invocations of the subject run at ONE path (W): a copied project directory keeps absolute paths of its origin in
        # Bob's package cache, so snapshots are only ever restored into the path they were taken from.
        W = os.path.join(base, "W")
        S0 = W
        projgen.write_project(S0, model0)
        r = e2e.build(S0, model0, mode, extra=xargs, env=env, evlog=evlog)
        if r.returncode != 0:
            return result("inconclusive", note="initial build failed: " + r.tail())
        # reference: clean build of S1
        Cdir = os.path.join(base, "C", "x")
        projgen.write_project(Cdir, model1)
        rc = e2e.build(Cdir, model1, mode, extra=xargs, env=env)
        if rc.returncode != 0:
            return result("trivial", note="edited state does not build: " + rc.tail(300))
        dc, _ = e2e.dists(Cdir, model1, mode)
        ref = {n: treecanon.canon(d) for n, d in dc.items()}
        # reference for "abort, then revert the edit": the results of S0 itself (S0 was built from scratch above)
        dc0, _ = e2e.dists(S0, model0, mode)
        C0 = os.path.join(base, "C0"); shutil.copytree(S0, C0, symlinks=True)
        dc0 = {n: d.replace(W, C0, 1) for n, d in dc0.items()}
        ref0 = {n: treecanon.canon(d) for n, d in dc0.items()}
        # the workspace right before the S0 -> S1 invocation
        projgen.write_project(S0, model1)
        SNAP = os.path.join(base, "SNAP")
        snapshot_copy(W, SNAP)
        S0 = SNAP
        # count run: which steps execute, which fs operations happen.  It starts from a restored snapshot exactly like the
        # aborted runs do (a copied tree has new inodes/ctimes, so the directory hash cache is rewritten: the operation
        # sequence is only reproducible under identical starting conditions)
        snapshot_copy(SNAP, W)
        open(evlog, "w").close()
        trace = os.path.join(base, "trace")
        ALL = {"VERIF_KILL_MATCH": ".", "VERIF_FSTRACE_MATCH": "."}       # every audited fs operation is a potential kill point
        r = e2e.build(W, model1, mode, extra=xargs, env=env, evlog=evlog, monitors=dict(ALL, VERIF_FSTRACE=trace))
        if r.returncode != 0:
            viol.append(violation("incremental-build-of-edited-state-failed", {"edits": applied, "output": r.tail(400)}))
            return result("held", counters=counters, violations=viol)
        tlines = open(trace).read().splitlines() if os.path.exists(trace) else []
        F = len(tlines)                                   # all fs operations of the invocation
        saves = [i + 1 for i, l in enumerate(tlines) if ".bob-state.pickle.new" in l.split(" | ")[0] and l.startswith("os.rename")]
        K = len(saves)
        # one representative per distinct call site of a state save; for each also the operation right after it (killing there
        # means: the state is saved, nothing else has happened yet)
        by_site = {}
        for i in saves:
            l = tlines[i - 1]
            by_site.setdefault(l.split(" | ")[-1] if " | " in l else "?", []).append(i)
        counters["distinct_state_save_sites"] = len(by_site)
        counters["fs_operations_in_interrupted_invocation"] = F
        execs = sorted({(n, k) for n, k, _ in e2e.read_evlog(evlog)})
        if not execs:
            return result("trivial", counters=counters, note="edit %s re-executes nothing" % applied)

        def recover_and_compare(ctx, revert=False):
            for f in os.listdir(ctl):
                if f != "bobpid":
                    os.unlink(os.path.join(ctl, f))
            lock = os.path.join(W, ".bob-state.lock")
            if os.path.exists(lock):
                os.unlink(lock)
            if revert:
                # the user undoes the edit after the failed build: the old inputs come back
                projgen.write_project(W, model0)
                r2 = e2e.build(W, model0, mode, extra=xargs, env=env)
                if r2.returncode != 0:
                    viol.append(violation("invocation-after-abort-and-revert-failed", dict(ctx, output=r2.tail(500)))); return
                dw, _ = e2e.dists(W, model0, mode)
                counters["recoveries_compared"] += 1
                bad = [{"package": n, "diff": treecanon.diff(dw[n], dc0[n], 5) if n in dw else "missing"} for n, c in ref0.items() if n not in dw or treecanon.canon(dw[n]) != c]
                if bad:
                    viol.append(violation("result-after-abort-and-revert-differs-from-clean-build", dict(ctx, differences=bad[:3], recovery_output=r2.stdout[-1800:])))
                sigs.add("%s|%s|%s|%s|revert" % (mode, "+".join(applied), ctx["abort"], ctx.get("point")))
                return
            r2 = e2e.build(W, model1, mode, extra=xargs, env=env)
            if r2.timed_out:
                counters["timeouts"] = counters.get("timeouts", 0) + 1; return
            if r2.returncode != 0:
                viol.append(violation("invocation-after-abort-failed", dict(ctx, output=r2.tail(500)))); return
            # The root result is enough: by construction every manifest hashes the complete results of everything below it
            # (saves one bob invocation per abort point); the full per-package comparison is done when the root differs.
            counters["recoveries_compared"] += 1
            import re as _re
            mres = _re.search(r"Build result is in (\S+)", r2.stdout or "")
            bad = []
            if mres and "root" in ref and os.path.isdir(os.path.join(W, mres.group(1))) and treecanon.canon(os.path.join(W, mres.group(1))) == ref["root"]:
                pass
            else:
                dw, _ = e2e.dists(W, model1, mode)
                for n, c in ref.items():
                    if n not in dw:
                        bad.append({"package": n, "problem": "no result directory"})
                    elif treecanon.canon(dw[n]) != c:
                        bad.append({"package": n, "diff": treecanon.diff(dw[n], dc[n], 5)})
            if bad:
                viol.append(violation("result-after-abort-differs-from-clean-build", dict(ctx, differences=bad[:3])))
            sigs.add("%s|%s|%s|%s" % (mode, "+".join(applied), ctx["abort"], ctx.get("point")))

        def aborted_run(monitors=None, expect_kill=False):
            r1 = e2e.build(W, model1, mode, extra=xargs, env=env, monitors=monitors, timeout=300)
            counters["aborted_invocations"] += 1
            return r1

        # (a)/(b) every executing step as failing / killing step
        steps = execs if case["step_samples"] is None else rnd.sample(execs, min(len(execs), case["step_samples"]))
        sl = case.get("slice") or [0, 1]
        steps = steps[sl[0]::sl[1]]
        for (n, k) in steps:
            # every executing step: script fails (recovery with the edit kept AND with the edit reverted), Bob killed during the script
            for kind, revert in (("fail", False), ("fail", True), ("kill", rnd.random() < 0.5)):
                snapshot_copy(S0, W)
                open(os.path.join(ctl, "%s.%s.%s" % (n.replace("/", "_"), k, kind)), "w").close()
                r1 = aborted_run()
                ctx = {"mode": mode, "edits": applied, "abort": "script-" + kind, "point": "%s.%s" % (n, k)}
                if kind == "fail":
                    counters["script_failures"] += 1
                    if r1.returncode == 0:
                        viol.append(violation("build-succeeded-although-step-script-failed", ctx)); continue
                else:
                    counters["kills_during_script"] += 1
                    if r1.returncode != -9:
                        counters["kill_not_delivered"] = counters.get("kill_not_delivered", 0) + 1
                if len(viol) < 4:
                    # sometimes a second abort before the recovery
                    if rnd.random() < 0.3 and K and not revert:
                        lock = os.path.join(W, ".bob-state.lock")
                        if os.path.exists(lock): os.unlink(lock)
                        for f in os.listdir(ctl):
                            if f != "bobpid": os.unlink(os.path.join(ctl, f))
                        aborted_run(dict(ALL, VERIF_KILL_AT=str(rnd.randrange(1, F + 1))))
                        counters["abort_chains"] += 1
                        ctx["abort"] += "+kill-at-save"
                    if revert:
                        counters["recoveries_after_revert"] = counters.get("recoveries_after_revert", 0) + 1
                    recover_and_compare(ctx, revert=revert)
        # (c) kill at state save points
        if case["kill_samples"] is None:
            # thorough: every state save, the operation after each save, and a sample of the other fs operations
            points = sorted(set(saves) | {i + 1 for i in saves if i + 1 <= F} | set(rnd.sample(range(1, F + 1), min(F, 60))))
        else:
            reps = {v[0] for v in by_site.values()}
            points = sorted(reps | {i + 1 for i in reps if i + 1 <= F} | set(rnd.sample(range(1, F + 1), min(F, case["kill_samples"]))))
        points = points[sl[0]::sl[1]]
        for n in points:
            if len(viol) >= 4:
                break
            snapshot_copy(S0, W)
            r1 = aborted_run(dict(ALL, VERIF_KILL_AT=str(n)))
            counters["kill_at_state_save"] += 1
            what = tlines[n - 1].split(" | ")
            ctx = {"mode": mode, "edits": applied, "abort": "kill-before-fs-op", "point": "%d/%d %s" % (n, F, (what[0].split(" ")[0] + " <- " + what[-1])[:80])}
            if r1.returncode != -9:
                counters["kill_not_delivered"] = counters.get("kill_not_delivered", 0) + 1
            recover_and_compare(ctx)
    return result("held", sigs=sorted(sigs), counters=counters, violations=viol[:4],
                  sample={"mode": mode, "edits": applied, "state_saves_in_interrupted_invocation": K, "executing_steps": execs[:8]})


LEVEL_TEXT = ("Fault enumeration: the interrupted invocation is replayed from an identical workspace snapshot for every abort point of the "
              "executed run (each executing step failing / being the moment Bob is killed; state-save points counted by an audit hook, all of them "
              "in the thorough tier), each followed by a normal invocation whose results are compared with a clean build.")
LEVEL_NOTE = "Abort points are complete per executed invocation in the thorough tier and sampled in quick; project states (edits) are sampled."
TECHNIQUE = "kill-at-N fault injection via audit hook + script-level failure/kill injection, recovery judged by differential comparison with a clean build"
