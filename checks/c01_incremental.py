"""C01 Incremental build equals clean build.

Subject: one long-lived workspace W that is rebuilt incrementally after every edit of a seeded history.
Reference: a from-scratch build of the same project state at another absolute path.
Oracles: (1) per package path the dist trees are identical (independent tree serialisation); (2) an immediately repeated
invocation executes no build/package step and no deterministic checkout (step event log written by the generated scripts);
(3) both builds succeed or both fail.
"""
import copy, os, random, shutil
from lib import common, projgen, edits, e2e, treecanon, bobapi
from lib.common import result, violation

ID = "C01"
LEVEL = "exploration"
BATCH = 1
CASE_TIMEOUT = 1500
MIN_NONTRIVIAL = 4
REQUIRED_COUNTERS = ["states_compared", "packages_compared", "repeat_invocations", "edits_that_changed_a_result", "exec_events"]
RULE = ("per case one generated project (4-8 recipes: classes, multiPackage, provided vars/tools/deps, import sources, weak/strong vars) "
        "and a history of 5-7 edits (script tokens, class scripts, variable values, strong/weak/undeclared moves, dependency add/remove/"
        "re-parameterise, provided vars, tool content/path/libs/env, source add/modify/delete, -D defines, default.yaml, reverts), each followed by "
        "an incremental build in one workspace and a clean build elsewhere; develop and release mode, -j1 and -j4. "
        "distinct_nontrivial = distinct (mode, edit kind) pairs after which at least one package result actually changed.")
ASSUMPTIONS = ["generated scripts are deterministic, path-free and rewrite their complete output on every run (DESIGN 2.3); weak variables never reach a result",
               "project states that Bob refuses to parse are skipped when both the incremental and the clean run refuse them",
               "develop-mode source workspaces of changed checkout variants are out of scope here (C16 / known finding there): checkout scripts write one fixed file name"]


def plan(tier, seed):
    n = 4 if tier == "quick" else 600
    cases = [{"seed": common.subseed(seed, "c01", i), "edits": 3 if tier == "quick" else 8, "small": tier == "quick"} for i in range(n)]
    # focused cases: fixed project shape in which every single-factor edit has a known consumer.  The (seeded) shuffled list of
    # all focused edits is partitioned over `parts` cases per mode, so every edit kind is exercised in develop AND release mode.
    parts = 4 if tier == "quick" else 3
    rounds = 1 if tier == "quick" else 20
    for rnd_i in range(rounds):
        for mode in ("dev", "build"):
            for part in range(parts):
                cases.append({"seed": common.subseed(seed, "c01f", rnd_i), "focused": True, "mode": mode, "jobs": [None, "-j4", "-j1"][(part + rnd_i) % 3],
                              "part": part, "parts": parts})
    return cases


def extend_focused(m, rnd):
    """more consumers for the focused project: a script-only deterministic checkout with a checkout variable (its re-execution is
    decided by the recorded directory state alone), and one recipe that coexists in two variants below two parents"""
    k0 = lambda: {k: [] for k in projgen.KINDS}
    T = lambda: projgen.new_tok(rnd)
    m["recipes"]["gen"] = {"env": {"GV": "0"}, "vars": {"checkout": ["GV"], "build": [], "package": []}, "weak": k0(), "cdet": True,
                           "tok": {"checkout": T(), "build": T(), "package": T()}, "tools": k0(), "toolsWeak": k0(), "depends": []}
    m["recipes"]["vlib"] = {"env": {}, "vars": {"checkout": [], "build": ["VV"], "package": []}, "weak": k0(), "tok": {"checkout": None, "build": T(), "package": T()},
                            "tools": k0(), "toolsWeak": k0(), "depends": []}
    for n, v in (("p1", "0"), ("p2", "1")):
        m["recipes"][n] = {"env": {}, "vars": k0(), "weak": k0(), "tok": {"checkout": None, "build": T(), "package": T()}, "tools": k0(), "toolsWeak": k0(),
                           "depends": [{"name": "vlib", "env": {"VV": v}}]}
    m["recipes"]["root"]["depends"] += [{"name": "gen"}, {"name": "p1"}, {"name": "p2"}]
    nxt = {"0": "2", "1": "3", "2": "4", "3": "5", "4": "0", "5": "1"}
    def variant(pn):
        def f(mm):
            d = mm["recipes"][pn]["depends"][0]["env"]; d["VV"] = nxt[d["VV"]]
        return f
    def genvar(mm):
        e = mm["recipes"]["gen"]["env"]; e["GV"] = nxt[e["GV"]]
    return [("gen-checkout-script", lambda mm: mm["recipes"]["gen"]["tok"].__setitem__("checkout", T())), ("gen-checkout-var-samelen", genvar),
            ("second-variant-env-samelen", variant("p2")), ("first-variant-env-samelen", variant("p1")), ("second-variant-env-samelen-again", variant("p2"))]


def run_case(case):
    rnd = random.Random(case["seed"])
    counters = dict.fromkeys(REQUIRED_COUNTERS, 0)
    counters["trivial_states"] = 0
    mode = case.get("mode") or rnd.choice(["dev", "build"])
    jobs = case["jobs"] if "jobs" in case else (rnd.choice(["-j1", "-j4"]) if rnd.random() < 0.6 else None)
    extra = [jobs] if jobs else []
    if case.get("focused"):
        fm, fe = projgen.focused_model(rnd), projgen.focused_edits(rnd)
        fe += extend_focused(fm, rnd)
        return run_history(case, rnd, counters, mode, jobs, extra, ["focused"], fm, fe)
    feats = rnd.sample(["classes", "multi", "pdeps", "if", "weak", "fwd", "checkoutscript"], rnd.randrange(2, 7)) + ["src", "tools"]
    size = (4, 7) if case.get("small") else (4, 10)
    model = bobapi.gen_valid_model(rnd, lambda: projgen.gen_model(rnd, rnd.randrange(*size), feats))
    if model is None:
        return result("trivial", counters=counters, note="no parseable project generated")
    model["evlog"] = True
    return run_history(case, rnd, counters, mode, jobs, extra, feats, model, None)


def run_history(case, rnd, counters, mode, jobs, extra, feats, model, focused):
    viol, sigs, hist = [], set(), []
    if focused is not None:
        rnd.shuffle(focused)
        focused = focused[case["part"]::case["parts"]]
        case = dict(case, edits=len(focused))
    snapshots = [copy.deepcopy(model)]
    prev_trees = None
    with common.scratch("c01") as base:
        W = os.path.join(base, "W")
        evlog = os.path.join(base, "ev.log")
        for step in range(case["edits"] + 1):
            if step:
                if focused is not None:
                    label, fn = focused[step - 1]
                    fn(model); ed = (label,)
                elif len(snapshots) > 1 and rnd.random() < 0.15:
                    i = rnd.randrange(len(snapshots) - 1)
                    model = copy.deepcopy(snapshots[i]); ed = ("revert-to", i)
                else:
                    ed = edits.apply_edit(model, rnd, edits.SINGLE_FACTOR if rnd.random() < 0.6 else None)
                hist.append(ed)
                snapshots.append(copy.deepcopy(model))
            projgen.write_project(W, model)
            open(evlog, "w").close()
            rw = e2e.build(W, model, mode, extra=extra, evlog=evlog)
            C = os.path.join(base, "C%d" % step, "elsewhere", "deeper")
            projgen.write_project(C, model)
            rc = e2e.build(C, model, mode, extra=extra)
            ctx = {"mode": mode, "jobs": jobs, "step": step, "history": hist[-4:], "features": sorted(feats)}
            if rw.timed_out or rc.timed_out:
                return result("inconclusive", counters=counters, note="bob timed out: " + (rw if rw.timed_out else rc).tail())
            if rw.returncode != 0 or rc.returncode != 0:
                if rw.returncode != 0 and rc.returncode != 0:
                    counters["trivial_states"] += 1         # refused/failed identically: nothing to compare
                    # restore last good model so that the history continues from a buildable state
                    model = copy.deepcopy(snapshots[-2]) if len(snapshots) > 1 else model
                    snapshots.append(copy.deepcopy(model)); hist.append(("undo-invalid",))
                    shutil.rmtree(os.path.join(base, "C%d" % step), ignore_errors=True)
                    if step == 0:
                        return result("trivial", counters=counters, note="initial project not buildable: " + rc.tail(300))
                    continue
                which = "incremental" if rw.returncode != 0 else "clean"
                viol.append(violation("only-%s-build-failed" % which, dict(ctx, output=(rw if rw.returncode else rc).tail(500))))
                break
            dw, _ = e2e.dists(W, model, mode)
            dc, _ = e2e.dists(C, model, mode)
            counters["states_compared"] += 1
            counters["packages_compared"] += len(dc)
            if not dc:
                viol.append(violation("query-path-listed-no-package-after-successful-build", ctx)); break
            diffs = e2e.compare_dists(dw, dc)
            if diffs:
                viol.append(violation("incremental-result-differs-from-clean-build", dict(ctx, differences=diffs)))
                break
            # (marker files written by the scripts are part of the compared trees: a stale marker of a previous variant in W is a diff)
            trees = {n_: treecanon.digest(d) for n_, d in dc.items()}
            if prev_trees is not None and trees != prev_trees and step:
                counters["edits_that_changed_a_result"] += 1
                sigs.add("%s|%s" % (mode, hist[-1][0]))
            prev_trees = trees
            counters["exec_events"] += len(e2e.read_evlog(evlog))
            # repeated invocation of the unchanged project (every state in the thorough tier, every other one in quick)
            if case.get("small") or (case.get("focused") and case.get("parts") == 4):
                if step % 2:
                    shutil.rmtree(os.path.join(base, "C%d" % step), ignore_errors=True)
                    continue
            open(evlog, "w").close()
            r2 = e2e.build(W, model, mode, extra=extra, evlog=evlog)
            counters["repeat_invocations"] += 1
            if r2.returncode != 0:
                viol.append(violation("repeated-invocation-failed", dict(ctx, output=r2.tail(400)))); break
            det = {n_ for n_, r_ in projgen.reachable(model).items()}
            bad = []
            for rname, kind, pwd in e2e.read_evlog(evlog):
                rec = projgen.reachable(model).get(rname) or model["recipes"].get(rname) or {}
                if kind in ("build", "package"):
                    bad.append((rname, kind))
                elif kind == "checkout" and rec.get("cdet") and not rec.get("src"):
                    # a checkout step with an import SCM is re-run on every invocation by design (the import is refreshed)
                    bad.append((rname, kind))
            if bad:
                viol.append(violation("repeated-invocation-re-executed-steps", dict(ctx, executed=bad[:6])))
                break
            shutil.rmtree(os.path.join(base, "C%d" % step), ignore_errors=True)
    return result("held", sigs=sorted(sigs), counters=counters, violations=viol[:4],
                  sample={"mode": mode, "jobs": jobs, "features": sorted(feats), "history": hist})


LEVEL_TEXT = ("Exploration: seeded edit histories over generated projects; after every edit the real `bob dev`/`bob build` runs incrementally in "
              "one workspace and from scratch in another, results are compared by an independent tree serialisation and the repeated "
              "invocation is watched through a step event log written by the scripts themselves.")
LEVEL_NOTE = "Import SCM sources only (git/url behaviour is C12); deterministic output-total script templates are the premise stated in the property."
TECHNIQUE = "differential runtime monitor (incremental vs clean build) + step-execution event log oracle over seeded edit histories"
