"""C06 Parallel builds are schedule independent and bounded.

Case kinds
  e2e        generated DAGs (identical packages reached on several paths, shared checkouts, tools) are built with -j1 and
             -jN under seeded per-step durations; the merged step event log (START/END/ARGS lines appended by the scripts) is
             checked offline: ordering (every argument/tool workspace that executed in this invocation ENDed before the
             consumer STARTed), exclusion / once-only (no workspace executes twice or overlapping), bound (<= j overlapping
             script intervals), results equal to -j1.  With an injected failure: dependents never start; with -k every
             package not depending on the failed one is complete and correct.
  jobserver  Bob runs as a client of an external make job server (FIFO pre-loaded with n DISTINCT token bytes); after a
             non-aborted build the FIFO content must be the initial multiset.
  semaphore  in-process stress of the real JobServerSemaphore (both modes) on a real FIFO: k tasks x random
             acquire/hold/yield/release programmes; invariants: held <= n (+1 recursive), token multiset conserved at
             quiescence, and a state based lost-wake-up oracle (a waiter exists, the FIFO is readable, no reader registered).
"""
import asyncio, json, os, random, re, select, shutil, stat
from lib import common, projgen, e2e, treecanon, bobapi
from lib.common import result, violation

def audit_ids(dist):
    import gzip
    try:
        a = json.loads(gzip.decompress(open(os.path.join(dist, "..", "audit.json.gz"), "rb").read()))["artifact"]
        return {k: a[k] for k in ("variant-id", "build-id", "result-hash")}
    except (OSError, ValueError, KeyError):
        return None


ID = "C06"
LEVEL = "exploration"
BATCH = 1
CASE_TIMEOUT = 1800
MIN_NONTRIVIAL = 30
REQUIRED_COUNTERS = ["parallel_builds", "step_executions_logged", "ordering_pairs_checked", "max_observed_concurrency", "failure_injections",
                     "jobserver_builds", "semaphore_programmes", "semaphore_full_concurrency_reached"]
RULE = ("e2e: seeded DAGs x j in {2,3,4,8} x seeded duration assignments (0-80 ms per step) with/without injected failure and -k; "
        "jobserver: external FIFO job server with 1-4 distinct tokens; semaphore: programmes of 2-8 tasks on 1-4 tokens incl. the "
        "release/re-acquire pattern of __yieldJobWhile. distinct_nontrivial = distinct step start-order signatures of parallel builds + "
        "distinct acquire/release interleaving signatures of semaphore programmes.")
ASSUMPTIONS = ["script START/END timestamps come from one host clock ($EPOCHREALTIME); script intervals lie inside Bob's job slots, so counting "
               "overlapping scripts never over-estimates running jobs",
               "never asserted: 'no step starts after a failure' (Bob notices failures asynchronously) - only dependents of the failed step must not start"]


def plan(tier, seed):
    cases = []
    ne, nj, ns = (8, 3, 5) if tier == "quick" else (300, 60, 200)
    for i in range(ne):
        cases.append({"kind": "e2e", "seed": common.subseed(seed, "c06e", i), "assignments": 2 if tier == "quick" else 5})
    for i in range(3 if tier == "quick" else 60):
        cases.append({"kind": "checkoutonly", "seed": common.subseed(seed, "c06c", i), "assignments": 3 if tier == "quick" else 6})
    for i in range(nj):
        cases.append({"kind": "jobserver", "seed": common.subseed(seed, "c06j", i)})
    for i in range(ns):
        cases.append({"kind": "semaphore", "seed": common.subseed(seed, "c06s", i), "programmes": 200 if tier == "quick" else 800})
    return cases


# ------------------------------------------------------------------ e2e

def dag_model(rnd):
    feats = rnd.sample(["classes", "multi", "tools", "pdeps", "src", "weak", "fwd", "checkoutscript"], rnd.randrange(3, 7)) + ["tools", "src"]
    m = projgen.gen_model(rnd, rnd.randrange(6, 11), feats)
    # identical packages reached on several paths: the last recipe is used by several others without parameters
    names = list(m["recipes"])
    tgt = names[-1]
    if not m["recipes"][tgt].get("multi"):
        for n in names[:-1][:4]:
            if not any(d["name"] == tgt for d in m["recipes"][n]["depends"]):
                m["recipes"][n]["depends"].append({"name": tgt})
    m["evlog"] = True
    m["ctl"] = True
    m["logargs"] = True
    return m


def parse_log(path):
    ev = []
    if not os.path.exists(path):
        return ev
    for l in open(path, errors="replace").read().splitlines():
        p = l.split(" ")
        if p[0] in ("START", "END") and len(p) >= 6:
            ev.append({"t": p[0], "recipe": p[1], "kind": p[2], "pwd": p[3], "pid": p[4], "time": float(p[5])})
        elif p[0] == "ARGS" and len(p) >= 4:
            ev.append({"t": "ARGS", "recipe": p[1], "kind": p[2], "pwd": p[3], "args": [a for a in p[4:] if a]})
    return ev


def check_history(ev, jobs, ctx, viol, counters, sigs):
    """offline checker over one invocation's event log"""
    # a step script consists of several fragments (class + recipe): interval of a workspace = first START .. last END
    iv = {}
    for e in ev:
        if e["t"] == "START":
            iv.setdefault(e["pwd"], {"starts": [], "ends": [], "recipe": e["recipe"], "kind": e["kind"], "pids": set()})
            iv[e["pwd"]]["starts"].append(e["time"]); iv[e["pwd"]]["pids"].add(e["pid"])
        elif e["t"] == "END":
            iv.setdefault(e["pwd"], {"starts": [], "ends": [], "recipe": e["recipe"], "kind": e["kind"], "pids": set()})
            iv[e["pwd"]]["ends"].append(e["time"]); iv[e["pwd"]]["pids"].add(e["pid"])
    counters["step_executions_logged"] += len(iv)
    # once-only / exclusion: all fragments of one workspace run in ONE shell process
    for pwd, d in iv.items():
        if len(d["pids"]) > 1:
            viol.append(violation("workspace-executed-more-than-once-in-one-invocation", dict(ctx, workspace=os.path.relpath(pwd, ctx["_proj"]), executions=len(d["pids"]))))
    # ordering
    args = {}
    for e in ev:
        if e["t"] == "ARGS":
            args.setdefault(e["pwd"], set()).update(e["args"])
    for pwd, deps in args.items():
        if pwd not in iv or not iv[pwd]["starts"]:
            continue
        st = min(iv[pwd]["starts"])
        for a in deps:
            a = os.path.normpath(a)
            if a in iv and a != pwd:
                counters["ordering_pairs_checked"] += 1
                if not iv[a]["ends"] or max(iv[a]["ends"]) > st:
                    viol.append(violation("step-started-before-its-dependency-finished",
                                          dict(ctx, step=os.path.relpath(pwd, ctx["_proj"]), dependency=os.path.relpath(a, ctx["_proj"]))))
    # bound
    points = []
    for pwd, d in iv.items():
        if d["starts"] and d["ends"]:
            points.append((min(d["starts"]), 1)); points.append((max(d["ends"]), -1))
    cur = mx = 0
    for t, dlt in sorted(points, key=lambda x: (x[0], x[1])):
        cur += dlt; mx = max(mx, cur)
    counters["max_observed_concurrency"] = max(counters["max_observed_concurrency"], mx)
    if mx > jobs:
        viol.append(violation("more-scripts-running-than-jobs", dict(ctx, observed=mx, jobs=jobs)))
    order = [os.path.relpath(p, ctx["_proj"]) for p, d in sorted(iv.items(), key=lambda kv: min(kv[1]["starts"]) if kv[1]["starts"] else 0)]
    sigs.add("order|" + common.sha(*order)[:12])
    return iv


def run_e2e(case):
    rnd = random.Random(case["seed"])
    counters = dict.fromkeys(REQUIRED_COUNTERS, 0)
    viol, sigs = [], set()
    model = bobapi.gen_valid_model(rnd, lambda: dag_model(rnd))
    if model is None:
        return result("trivial", counters=counters, note="no valid model")
    mode = rnd.choice(["dev", "build"])
    steps = [(n, k) for n, r in list(projgen.reachable(model).items()) + list(model.get("classes", {}).items()) for k in projgen.KINDS if (r.get("tok") or {}).get(k)]
    with common.scratch("c06") as base:
        ctl = os.path.join(base, "ctl"); os.makedirs(ctl)
        env = {"VERIF_CTL": ctl}
        x = ["-e", "VERIF_CTL"]
        # reference: sequential build
        R = os.path.join(base, "R"); projgen.write_project(R, model)
        rr = e2e.build(R, model, mode, extra=x + ["-j1"], env=env, evlog=os.path.join(base, "ref.log"))
        if rr.returncode != 0:
            return result("trivial", counters=counters, note="sequential build failed: " + rr.tail(300))
        dref, _ = e2e.dists(R, model, mode)
        ref = {n: treecanon.canon(d) for n, d in dref.items()}
        check_history(parse_log(os.path.join(base, "ref.log")), 1, {"jobs": 1, "mode": mode, "_proj": R}, viol, counters, set())
        for a in range(case["assignments"]):
            j = rnd.choice([2, 3, 4, 8])
            for f in os.listdir(ctl):
                if f != "bobpid": os.unlink(os.path.join(ctl, f))
            for (n, k) in steps:
                if rnd.random() < 0.7:
                    open(os.path.join(ctl, "%s.%s.sleep" % (n.replace("/", "_"), k)), "w").write("%.3f" % (rnd.random() * 0.08))
            fail = None
            keep = False
            if a % 2 == 1:
                shared = [s for s in steps if s[0] == list(model["recipes"])[-1] and s[1] != "checkout"]
                fail = rnd.choice(shared) if shared and rnd.random() < 0.6 else rnd.choice([s for s in steps if s[1] != "checkout"] or steps)
                if rnd.random() < 0.4:
                    j = 1           # with one job every further request for the failed step arrives after the failure
                open(os.path.join(ctl, "%s.%s.fail" % (fail[0].replace("/", "_"), fail[1])), "w").close()
                keep = rnd.random() < 0.6
                counters["failure_injections"] += 1
            P = os.path.join(base, "P%d" % a); projgen.write_project(P, model)
            log = os.path.join(base, "p%d.log" % a)
            r = e2e.build(P, model, mode, extra=x + ["-j%d" % j] + (["-k"] if keep else []), env=env, evlog=log)
            counters["parallel_builds"] += 1
            ctx = {"jobs": j, "mode": mode, "fail": fail, "keep_going": keep, "_proj": P}
            if r.timed_out:
                return result("inconclusive", counters=counters, note="parallel build timed out")
            ev = parse_log(log)
            iv = check_history(ev, j, ctx, viol, counters, sigs)
            if fail is None:
                if r.returncode != 0:
                    viol.append(violation("parallel-build-failed-although-sequential-build-succeeds", dict(ctx, output=r.tail(400)))); continue
                dw, _ = e2e.dists(P, model, mode)
                diffs = e2e.compare_dists(dw, dref)
                if diffs:
                    viol.append(violation("parallel-result-differs-from-sequential-result", dict(ctx, differences=diffs)))
                # the recorded identity of each result (audit trail: variant-id, build-id, result-hash) is part of the package result
                idd = [(n, audit_ids(dw[n]), audit_ids(dref[n])) for n in sorted(dw) if n in dref]
                counters["result_identities_compared"] = counters.get("result_identities_compared", 0) + len(idd)
                idd = [x for x in idd if x[1] != x[2] and x[1] is not None and x[2] is not None]
                if idd:
                    viol.append(violation("parallel-build-records-different-ids-than-sequential-build", dict(ctx, package=idd[0][0], parallel=idd[0][1], sequential=idd[0][2], packages_affected=len(idd))))
            else:
                if r.returncode == 0:
                    # the failing fragment may legitimately not be reached (e.g. class script unused): only then success is fine
                    if any(d["recipe"] == fail[0] and d["kind"] == fail[1] for d in iv.values()):
                        viol.append(violation("build-succeeded-although-a-step-failed", ctx))
                    continue
                # which workspaces failed: START without END
                failed_ws = {p for p, d in iv.items() if d["starts"] and len(d["ends"]) < len(d["starts"]) and d["recipe"] == fail[0] and d["kind"] == fail[1]}
                # dependents (through ARGS) of a failed workspace must not have started
                args = {}
                for e in ev:
                    if e["t"] == "ARGS":
                        args.setdefault(e["pwd"], set()).update(os.path.normpath(a_) for a_ in e["args"])
                for pwd, deps in args.items():
                    if deps & failed_ws and pwd not in failed_ws:
                        viol.append(violation("dependent-of-failed-step-was-started", dict(ctx, step=os.path.relpath(pwd, P), failed=[os.path.relpath(f_, P) for f_ in deps & failed_ws])))
                if keep:
                    # every package whose results do not depend on the failed recipe must be complete and correct
                    dw, _ = e2e.dists(P, model, mode)
                    bad_names = failing_closure(model, fail[0])
                    for n, c in ref.items():
                        segs = n.split("/")
                        if any(s in bad_names for s in segs):
                            continue
                        if n not in dw or treecanon.canon(dw[n]) != c:
                            # is it really independent?  a package below an affected one is built only if someone else needs it
                            viol.append(violation("keep-going-left-independent-package-unbuilt-or-wrong", dict(ctx, package=n, present=n in dw)))
                            break
            for v in viol:
                v["detail"].pop("_proj", None)
            if len(viol) > 4:
                break
            shutil.rmtree(P, ignore_errors=True)
    for v in viol:
        v["detail"].pop("_proj", None)
    return result("held", sigs=sorted(sigs), counters=counters, violations=viol[:4], sample={"kind": "e2e", "mode": mode, "steps": len(steps)})


def failing_closure(model, failed):
    """recipe (package) names whose results may depend on the failed fragment: users of the class/recipe, transitively upwards"""
    flat = projgen.reachable(model)
    bad = set()
    for n, r in flat.items():
        base = n.rsplit("-", 1)[0] if n not in model["recipes"] else n
        if n == failed or base == failed or failed in r.get("inherit", []) or failed in model["recipes"].get(base, {}).get("inherit", []):
            bad.add(n)
    changed = True
    while changed:
        changed = False
        for n, r in flat.items():
            if n in bad:
                continue
            base = n.rsplit("-", 1)[0] if n not in model["recipes"] else n
            deps = [d["name"] for d in r.get("depends", [])] + [d["name"] for d in model["recipes"].get(base, {}).get("depends", [])]
            if any(d in bad for d in deps):
                bad.add(n); changed = True
    return bad


# ------------------------------------------------------------------ external job server

def run_jobserver(case):
    rnd = random.Random(case["seed"])
    counters = dict.fromkeys(REQUIRED_COUNTERS, 0)
    viol, sigs = [], set()
    model = bobapi.gen_valid_model(rnd, lambda: dag_model(rnd))
    if model is None:
        return result("trivial", counters=counters, note="no valid model")
    with common.scratch("c06j") as base:
        ctl = os.path.join(base, "ctl"); os.makedirs(ctl)
        for rnd_i in range(2):
            n = rnd.randrange(1, 5)
            fifo = os.path.join(base, "fifo%d" % rnd_i); os.mkfifo(fifo)
            fd = os.open(fifo, os.O_RDWR | os.O_NONBLOCK)
            tokens = bytes(range(65, 65 + n))
            os.write(fd, tokens)
            for (nme, r) in projgen.reachable(model).items():
                for k in projgen.KINDS:
                    if (r.get("tok") or {}).get(k) and rnd.random() < 0.7:
                        open(os.path.join(ctl, "%s.%s.sleep" % (nme.replace("/", "_"), k)), "w").write("%.3f" % (rnd.random() * 0.05))
            P = os.path.join(base, "P%d" % rnd_i); projgen.write_project(P, model)
            log = os.path.join(base, "j%d.log" % rnd_i)
            env = {"VERIF_CTL": ctl, "MAKEFLAGS": "-j%d --jobserver-auth=fifo:%s" % (n + 1, fifo)}
            r = e2e.build(P, model, "dev", extra=["-e", "VERIF_CTL"], env=env, evlog=log)
            counters["jobserver_builds"] += 1
            left = b""
            try:
                left = os.read(fd, 100)
            except BlockingIOError:
                pass
            os.close(fd)
            ctx = {"tokens": tokens.decode(), "left_in_fifo": left.decode("latin1"), "rc": r.returncode}
            if r.returncode != 0:
                viol.append(violation("build-under-external-jobserver-failed", dict(ctx, output=r.tail(400)))); continue
            if sorted(left) != sorted(tokens):
                viol.append(violation("jobserver-tokens-not-conserved", ctx))
            iv = check_history(parse_log(log), n + 1, dict(ctx, jobs=n + 1, _proj=P), viol, counters, sigs)
    for v in viol:
        v["detail"].pop("_proj", None)
    return result("held", sigs=sorted(sigs), counters=counters, violations=viol[:4], sample={"kind": "jobserver"})


# ------------------------------------------------------------------ semaphore stress

async def sem_programme(JobServerSemaphore, seed, recursive, base):
    rnd = random.Random(seed)
    path = os.path.join(base, "f%d" % seed); os.mkfifo(path)
    rfd = os.open(path, os.O_RDONLY | os.O_NONBLOCK); wfd = os.open(path, os.O_WRONLY)
    n = rnd.randrange(1, 5)
    tokens = bytes(range(65, 65 + n)); os.write(wfd, tokens)
    sem = JobServerSemaphore((rfd, wfd), recursive)
    held = [0]; maxheld = [0]; order = []
    limit = n + (1 if recursive else 0)
    problems = []
    waiting = [0]
    async def task(tid):
        for _ in range(rnd.randrange(1, 6)):
            waiting[0] += 1
            await sem.acquire()
            waiting[0] -= 1
            held[0] += 1; maxheld[0] = max(maxheld[0], held[0]); order.append(("a", tid))
            if held[0] > limit:
                problems.append("bound exceeded: %d jobs hold a slot, limit %d" % (held[0], limit))
            for _ in range(rnd.randrange(0, 3)):
                await asyncio.sleep(rnd.choice([0, 0, 0.0003]))
            if rnd.random() < 0.3:      # the release / re-acquire pattern of __yieldJobWhile
                held[0] -= 1; sem.release(); await asyncio.sleep(0)
                waiting[0] += 1; await sem.acquire(); waiting[0] -= 1; held[0] += 1
                if held[0] > limit:
                    problems.append("bound exceeded after re-acquire: %d > %d" % (held[0], limit))
            held[0] -= 1; order.append(("r", tid)); sem.release()
            if rnd.random() < 0.5:
                await asyncio.sleep(0)
    k = rnd.randrange(2, 9)
    tasks = [asyncio.ensure_future(task(i)) for i in range(k)]
    finished, pending = await asyncio.wait(tasks, timeout=5)
    res = None
    for t in finished:
        if t.exception():
            res = ("semaphore-raised", repr(t.exception()))
    if problems and res is None:
        res = ("semaphore-bound-exceeded", problems[0])
    if pending:
        readable = bool(select.select([rfd], [], [], 0)[0])
        # state based: somebody waits, a token is readable (or nobody holds anything) - yet nothing will ever wake the waiter
        if res is None:
            if readable or held[0] == 0:
                res = ("semaphore-lost-wakeup", "pending=%d fifo_readable=%s held=%d waiting=%d" % (len(pending), readable, held[0], waiting[0]))
            else:
                res = ("inconclusive", "timeout with held=%d" % held[0])
        for t in pending:
            t.cancel()
    left = b""
    try:
        left = os.read(rfd, 100)
    except BlockingIOError:
        pass
    if res is None and sorted(left) != sorted(tokens):
        res = ("semaphore-tokens-not-conserved", "%r left of %r" % (left, tokens))
    os.close(rfd); os.close(wfd); os.unlink(path)
    return res, n, k, maxheld[0] == limit, common.sha(repr(order))[:12]


def run_semaphore(case):
    common.repo_path_setup()
    from bob.builder import JobServerSemaphore
    counters = dict.fromkeys(REQUIRED_COUNTERS, 0)
    viol, sigs = [], set()
    with common.scratch("c06s", root="/dev/shm/bobverif" if os.path.isdir("/dev/shm") else None) as base:
        for i in range(case["programmes"]):
            for rec in (False, True):
                seed = common.subseed(case["seed"], i) % (1 << 30)
                loop = asyncio.new_event_loop(); asyncio.set_event_loop(loop)
                try:
                    res, n, k, full, sig = loop.run_until_complete(sem_programme(JobServerSemaphore, seed, rec, base))
                finally:
                    loop.close()
                counters["semaphore_programmes"] += 1
                counters["semaphore_full_concurrency_reached"] += int(full)
                sigs.add("sem|%s|%s" % ("rec" if rec else "plain", sig))
                if res is not None:
                    if res[0] == "inconclusive":
                        counters["semaphore_timeouts"] = counters.get("semaphore_timeouts", 0) + 1
                    elif len(viol) < 4:
                        viol.append(violation(res[0] + ("-recursive" if rec else ""), {"seed": seed, "tokens": n, "tasks": k, "recursive": rec, "what": res[1]}))
    return result("held", sigs=sorted(sigs), counters=counters, violations=viol[:4], sample={"kind": "semaphore", "programmes": case["programmes"] * 2})


def run_checkoutonly(case):
    """--checkout-only under parallelism: a checkout step whose tools must really be built first.

    Tool package `tl` is (a) a checkoutTools tool of 1-2 packages and (b) a plain result dependency of others; the order of the root's
    dependencies and the job count are seeded.  Reference: the source workspaces of a complete sequential build.  `bob dev
    --checkout-only -jN` in a fresh project must produce the same source workspaces (a checkout that ran before its tool was
    built records 'command not found' in its output or fails).
    """
    rnd = random.Random(case["seed"])
    counters = dict.fromkeys(REQUIRED_COUNTERS, 0)
    counters["checkout_only_builds"] = 0
    viol, sigs = [], set()
    k0 = lambda: {k: [] for k in projgen.KINDS}
    T = lambda: projgen.new_tok(rnd)
    m = {"recipes": {}, "classes": {}, "sources": {}, "defines": {}, "default": {}, "evlog": True, "ctl": True}
    m["recipes"]["tl"] = {"env": {}, "vars": k0(), "weak": k0(), "tok": {"checkout": None, "build": T(), "package": T()}, "ptools": {"t1": {"path": "bin", "libs": []}}, "tools": k0(), "toolsWeak": k0(), "depends": []}
    users = ["a%d" % i for i in range(rnd.choice([1, 2]))]
    plain = ["b%d" % i for i in range(rnd.choice([1, 2]))]
    for n in users:
        tools = k0(); tools["checkout"] = ["t1"]
        m["recipes"][n] = {"env": {}, "vars": k0(), "weak": k0(), "cdet": True, "tok": {"checkout": T(), "build": T(), "package": T()}, "tools": tools, "toolsWeak": k0(),
                           "depends": [{"name": "tl", "use": ["tools"]}]}
    for n in plain:
        m["recipes"][n] = {"env": {}, "vars": k0(), "weak": k0(), "tok": {"checkout": (T() if rnd.random() < 0.5 else None), "build": T(), "package": T()}, "tools": k0(), "toolsWeak": k0(),
                           "depends": [{"name": "tl", "use": ["result"]}]}
        if m["recipes"][n]["tok"]["checkout"]:
            m["recipes"][n]["cdet"] = True
    order = users + plain
    rnd.shuffle(order)
    m["recipes"]["root"] = {"root": True, "env": {}, "vars": k0(), "weak": k0(), "tok": {"checkout": None, "build": T(), "package": T()}, "tools": k0(), "toolsWeak": k0(),
                            "depends": [{"name": n} for n in order]}
    with common.scratch("c06c") as base:
        ctl = os.path.join(base, "ctl"); os.makedirs(ctl)
        env = {"VERIF_CTL": ctl}
        x = ["-e", "VERIF_CTL"]
        R = os.path.join(base, "R"); projgen.write_project(R, m)
        rr = e2e.build(R, m, "dev", extra=x + ["-j1"], env=env)
        if rr.returncode != 0:
            return result("trivial", counters=counters, note="reference build failed: " + rr.tail(300))
        sref, _ = e2e.dists(R, m, "dev", field="src")
        ref = {n: treecanon.canon(d) for n, d in sref.items()}
        for a in range(case["assignments"]):
            j = rnd.choice([1, 2, 4, 8])
            for f in os.listdir(ctl):
                if f != "bobpid": os.unlink(os.path.join(ctl, f))
            for n in list(m["recipes"]):
                for k in ("build", "package"):
                    if rnd.random() < 0.6:
                        open(os.path.join(ctl, "%s.%s.sleep" % (n, k)), "w").write("%.3f" % (rnd.random() * 0.08))
            P = os.path.join(base, "P%d" % a); projgen.write_project(P, m)
            r = e2e.build(P, m, "dev", extra=x + ["-j%d" % j, "--checkout-only"], env=env)
            counters["checkout_only_builds"] += 1; counters["parallel_builds"] += 1
            ctx = {"jobs": j, "mode": "dev --checkout-only", "root_depends": order, "_proj": P}
            if r.returncode != 0:
                viol.append(violation("checkout-only-build-failed-although-complete-build-succeeds", dict(ctx, output=r.tail(400)))); continue
            sw, _ = e2e.dists(P, m, "dev", field="src")
            bad = [n for n in sorted(ref) if n not in sw or treecanon.canon(sw[n]) != ref[n]]
            if bad:
                viol.append(violation("checkout-only-sources-differ-from-complete-build", dict(ctx, packages=bad[:4], diff=treecanon.diff(sw[bad[0]], sref[bad[0]], 4) if bad[0] in sw else "missing")))
            sigs.add("checkoutonly|j%d|%s" % (j, "".join(x_[0] for x_ in order)))
    for v in viol:
        v["detail"].pop("_proj", None)
    return result("held", sigs=sorted(sigs), counters=counters, violations=viol[:3], sample={"kind": "checkoutonly", "order": order})


def run_case(case):
    return {"e2e": run_e2e, "jobserver": run_jobserver, "semaphore": run_semaphore, "checkoutonly": run_checkoutonly}[case["kind"]](case)


LEVEL_TEXT = ("Exploration of schedules: real parallel builds under seeded duration assignments with an offline history checker over the step "
              "event log (ordering, once-only, bound, result equality, failure confinement), token conservation against a real FIFO job "
              "server, and thousands of seeded programmes against the real JobServerSemaphore with invariant checks at quiescence.")
LEVEL_NOTE = "Schedules are sampled (durations, task programmes), not enumerated; timing only shapes schedules, verdicts are taken from logical order and state."
TECHNIQUE = "offline history checker over step START/END/ARGS events + conservation and lost-wake-up invariants on the real job-server semaphore under stress"
