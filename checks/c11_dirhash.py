"""C11 Directory hashes are content exact and cache transparent.

Monitor: for a seeded history of tree modifications, after every operation the real
bob.utils.hashDirectory is evaluated with a persistent index and without; both must agree.
Across all trees seen in the run the maps canon->hash and hash->canon (canon = independent
serialisation from lib/treecanon) must form a bijection.
"""
import os, random, stat, time
from lib import common, treecanon
from lib.common import result, violation

ID = "C11"
LEVEL = "exploration"
BATCH = 8
CASE_TIMEOUT = 120
RULE = ("seeded histories of create/modify/same-size rewrite/chmod/delete/rename/type-replacement/utime/chown/"
        "ignored-dir operations on trees whose names cluster around sort-order traps; after every operation "
        "hashDirectory(path, index) is compared with hashDirectory(path) and (canon, hash) is added to a global "
        "bijection table. distinct_nontrivial = number of distinct canonical trees hashed.")
ASSUMPTIONS = ["every harness modification changes the lstat tuple of the touched path (stat guard: if it did not, an explicit utime is applied)",
               "no unreadable files and no file named BaseDirList.txt are generated",
               "treecanon (names, type, permission bits, content, link target; ignores .git/.svn/.portage-cache dirs) is the meaning of 'agree'"]
MIN_NONTRIVIAL = 50
REQUIRED_COUNTERS = ["cached_vs_uncached", "cache_hits_possible"]

NAMES = [b"a", b"a-", b"a.", b"a0", b"a b", b"A", b"ab", b"a\xff", b"\xc3\xa9", b"b", b"a.b", b"a+", b"a,",
         b"aa", b"a\x01", b"~", b"0", b"-", b"a\xc3\xa9", b".git", b".svn", b".portage-cache", b".gitignore", b"c"]
CONTENTS = [b"", b"x", b"y", b"xx", b"xy", b"x" * 4096, b"y" * 4096, b"x" * 70000, b"\0", b"\n"]
TARGETS = [b"a", b"b", b"../a", b"/nonexistent", b"a/", b"", b"x" * 300]
MODES = [0o644, 0o755, 0o600, 0o444, 0o640, 0o4755, 0o2755, 0o1777, 0o700, 0o666]


def plan(tier, seed):
    n = 1200 if tier == "quick" else 20000
    ops = 25 if tier == "quick" else 40
    return [{"seed": common.subseed(seed, "c11", i), "ops": ops} for i in range(n)]


class Tree:
    def __init__(self, root, rnd):
        self.root = root; self.rnd = rnd

    def entries(self, kinds="fdl"):
        out = []
        for p, ds, fs in os.walk(self.root):
            for n in ds + fs:
                q = os.path.join(p, n)
                st = os.lstat(q)
                k = "d" if stat.S_ISDIR(st.st_mode) else "l" if stat.S_ISLNK(st.st_mode) else "f"
                if k in kinds:
                    out.append(q)
        out.sort()
        return out

    def dirs(self):
        return [self.root] + self.entries("d")

    def newpath(self):
        d = self.rnd.choice(self.dirs())
        return os.path.join(d, self.rnd.choice(NAMES))

    def remove(self, p):
        st = os.lstat(p)
        if stat.S_ISDIR(st.st_mode):
            common.rmtree(p)
        else:
            os.unlink(p)

    def create(self, p, kind):
        if kind == "f":
            with open(p, "wb") as f:
                f.write(self.rnd.choice(CONTENTS))
            os.chmod(p, self.rnd.choice(MODES) | 0o400)
        elif kind == "d":
            os.mkdir(p)
            os.chmod(p, self.rnd.choice(MODES) | 0o700)
        else:
            t = self.rnd.choice(TARGETS)
            if not t:
                t = b"z"
            os.symlink(t, p)


def stat_tuple(p):
    try:
        s = os.lstat(p)
    except OSError:
        return None
    return (s.st_ctime_ns, s.st_mtime_ns, s.st_dev, s.st_ino, s.st_mode, s.st_size)


def guard(p, before, counters):
    """Premise of the property: a modification changes the stat data.  Enforce it."""
    after = stat_tuple(p)
    if after is not None and after == before:
        counters["stat_guard_applied"] = counters.get("stat_guard_applied", 0) + 1
        time.sleep(0.003)
        now = time.time_ns()
        os.utime(p, ns=(now, now), follow_symlinks=False)


def apply_op(t, rnd, counters):
    ops = ["create", "create", "modify", "samesize", "chmod", "delete", "rename", "replace", "utime", "chown", "rename_over",
           "samesize_keepmtime", "swap_keepmtime"]
    op = rnd.choice(ops)
    ents = t.entries()
    files = t.entries("f")
    if op == "create" or not ents:
        p = t.newpath()
        before = stat_tuple(p)
        if before is not None:
            t.remove(p)
        t.create(p, rnd.choice("fffdl"))
        guard(p, before, counters)
        return ("create", os.fsdecode(os.path.relpath(p, t.root)))
    if op == "swap_keepmtime" and files:
        # replace a file by a different one of the same size, mode and mtime (new inode, new ctime)
        p = rnd.choice(files)
        before = stat_tuple(p)
        old = open(p, "rb").read()
        if not old:
            return ("noop",)
        new = old[:-1] + bytes([(old[-1] + 1) % 256])
        tmp = os.path.join(os.path.dirname(t.root), b"swap.tmp")
        with open(tmp, "wb") as f:
            f.write(new)
        os.chmod(tmp, stat.S_IMODE(before[4]))
        os.utime(tmp, ns=(before[1], before[1]))
        os.rename(tmp, p)
        guard(p, before, counters)
        return (op, os.fsdecode(os.path.relpath(p, t.root)))
    if op in ("modify", "samesize", "samesize_keepmtime") and files:
        p = rnd.choice(files)
        before = stat_tuple(p)
        old = open(p, "rb").read()
        if op == "samesize_keepmtime" and not old:
            return ("noop",)
        if op != "modify" and old:
            new = bytes((b + 1) % 256 for b in old[:1]) + old[1:]
            if rnd.random() < 0.5:
                new = old[:-1] + bytes([(old[-1] + 1) % 256])
        else:
            new = rnd.choice([c for c in CONTENTS if c != old])
        # in-place rewrite keeps the inode
        os.chmod(p, stat.S_IMODE(os.lstat(p).st_mode) | 0o200)
        with open(p, "r+b") as f:
            f.write(new); f.truncate(len(new))
        os.chmod(p, stat.S_IMODE(before[4]))
        if op == "samesize_keepmtime":
            os.utime(p, ns=(before[1], before[1]))      # mtime restored (tar -x, touch -r, rsync -t): only ctime tells
        guard(p, before, counters)
        return (op, os.fsdecode(os.path.relpath(p, t.root)))
    if op == "chmod":
        cands = t.entries("fd")
        if cands:
            p = rnd.choice(cands)
            m = rnd.choice(MODES) | (0o700 if os.path.isdir(p) else 0o400)
            os.chmod(p, m)
            return ("chmod", os.fsdecode(os.path.relpath(p, t.root)), "%o" % m)
    if op == "delete":
        p = rnd.choice(ents)
        t.remove(p)
        return ("delete", os.fsdecode(os.path.relpath(p, t.root)))
    if op in ("rename", "rename_over"):
        p = rnd.choice(ents)
        q = t.newpath()
        if q == p or q.startswith(p + b"/") or p.startswith(q + b"/"):
            return ("noop",)
        before = stat_tuple(q)
        if before is not None:
            if op == "rename":
                return ("noop",)
            t.remove(q)
        os.rename(p, q)
        guard(q, before, counters)
        return (op, os.fsdecode(os.path.relpath(p, t.root)), os.fsdecode(os.path.relpath(q, t.root)))
    if op == "replace":
        p = rnd.choice(ents)
        before = stat_tuple(p)
        st = os.lstat(p)
        k = "d" if stat.S_ISDIR(st.st_mode) else "l" if stat.S_ISLNK(st.st_mode) else "f"
        nk = rnd.choice([x for x in "fdl" if x != k] + (["l"] if k == "l" else []))
        t.remove(p)
        t.create(p, nk)
        guard(p, before, counters)
        return ("replace", os.fsdecode(os.path.relpath(p, t.root)), k + "->" + nk)
    if op == "utime":
        p = rnd.choice(ents)
        ns = rnd.randrange(10**18, 2 * 10**18)
        os.utime(p, ns=(ns, ns), follow_symlinks=False)
        return ("utime", os.fsdecode(os.path.relpath(p, t.root)))
    if op == "chown":
        p = rnd.choice(ents)
        try:
            os.chown(p, rnd.choice([0, 1, 1000]), rnd.choice([0, 1, 1000]), follow_symlinks=False)
        except OSError:
            return ("noop",)
        return ("chown", os.fsdecode(os.path.relpath(p, t.root)))
    return ("noop",)


def run_case(case):
    common.repo_path_setup()
    from bob.utils import hashDirectory
    rnd = random.Random(case["seed"])
    counters = {"cached_vs_uncached": 0, "cache_hits_possible": 0, "ops": 0}
    viol = []
    pairs = {}
    hist = []
    with common.scratch("c11") as base:
        root = os.fsencode(os.path.join(base, "tree")); os.mkdir(root)
        # occasionally hash through a str path / a moved tree
        index = os.path.join(base, "cache.bin")
        t = Tree(root, rnd)
        for i in range(rnd.randrange(3, 12)):
            apply_op(t, rnd, counters)
        for i in range(case["ops"]):
            op = apply_op(t, rnd, counters)
            hist.append(op); counters["ops"] += 1
            if rnd.random() < 0.15:
                continue        # several modifications between two hashes
            h_cached = hashDirectory(os.fsdecode(root), index)
            h_plain = hashDirectory(os.fsdecode(root))
            counters["cached_vs_uncached"] += 1
            if os.path.exists(index):
                counters["cache_hits_possible"] += 1
            c = treecanon.digest(root)
            if h_cached != h_plain:
                viol.append(violation("cached-hash-differs", {"history": hist[-6:], "cached": h_cached.hex(), "plain": h_plain.hex(),
                                                               "tree": treecanon.describe(root, 30)}))
                break
            # second cached evaluation (fully warm) must be stable as well
            if rnd.random() < 0.3:
                h2 = hashDirectory(os.fsdecode(root), index)
                if h2 != h_plain:
                    viol.append(violation("warm-rehash-differs", {"history": hist[-6:], "tree": treecanon.describe(root, 30)}))
                    break
            prev = pairs.get(c)
            if prev is not None and prev[0] != h_plain.hex():
                viol.append(violation("equal-trees-different-hash", {"history": hist[-6:], "tree": treecanon.describe(root, 30)}))
                break
            pairs[c] = (h_plain.hex(), treecanon.describe(root, 12))
    r = result("held", sigs=list(pairs.keys()), counters=counters, violations=viol,
               sample={"seed": case["seed"], "history_tail": hist[-8:]})
    r["pairs"] = [[c, h] for c, (h, _) in pairs.items()]
    r["descr"] = {c: d for c, (h, d) in list(pairs.items())[:0]}
    return r


def finish(results, agg):
    c2h, h2c = {}, {}
    out = []
    for r in results:
        for c, h in r.get("pairs", []):
            if c2h.setdefault(c, h) != h:
                out.append(violation("equal-trees-different-hash", {"canon": c, "hashes": [c2h[c], h], "case": r["case"]}))
            if h2c.setdefault(h, c) != c:
                out.append(violation("different-trees-equal-hash", {"hash": h, "canons": [h2c[h], c], "case": r["case"]}))
        r.pop("pairs", None)
    agg["bijection_pairs"] = len(c2h)
    return out[:5]

LEVEL_TEXT = ("Exploration: the real hashDirectory is run cached and uncached after every step of seeded modification histories "
              "(thousands of distinct trees per run) and compared with an independent canonical serialisation; held means no "
              "disagreement on the executions observed.")
LEVEL_NOTE = "Trusts lib/treecanon as the meaning of tree equality, and the stat-changes-on-modification premise stated in the property (enforced by a stat guard)."
TECHNIQUE = "differential runtime monitor (cached vs uncached) + bijection oracle against an independent tree serialisation over seeded histories"
