"""C16 Workspace directories separate variants; clean removes only garbage.

Histories over projects with many variants per recipe (same recipe under different environments, multiPackage, identical
packages from different recipes) with dev/build/clean invocations in between.  Directory assignment is observed through the
CLI (`bob query-path`), variant identity through the API.  Oracles: (1) within a state two steps of one kind share a directory
only if they have the same Variant-Id (develop mode: and the same recipe); (2) a variant that survives an edit keeps its
directory; (3) build and dist directories contain exactly what a clean build puts there (a directory handed to a different
variant was emptied); (4) `bob clean` deletes only directories no current package maps to (sources only with -s), an
immediate rebuild executes no build/package step, `--dry-run` deletes nothing and prints exactly what the real run deletes.
"""
import copy, json, os, random, shutil
from lib import common, projgen, edits, e2e, treecanon, bobapi, dump
from lib.common import result, violation

ID = "C16"
LEVEL = "exploration"
BATCH = 1
CASE_TIMEOUT = 1800
MIN_NONTRIVIAL = 10
REQUIRED_COUNTERS = ["states", "directories_checked", "variants_surviving_an_edit", "clean_invocations", "garbage_dirs_deleted", "dry_runs", "shared_dir_groups"]
RULE = ("per case a generated project with variant-rich shapes (one recipe consumed with 2-4 different variable values, multiPackage, twin recipes "
        "with identical content) and a history of 4-6 edits biased to variant changes (dependency environment, dependency add/remove, script "
        "tokens); develop and release mode; after every state directory maps and variant ids are compared, every second state a clean "
        "--dry-run / clean / rebuild sequence runs. distinct_nontrivial = distinct (mode, edit kind, number of variants per recipe, clean "
        "outcome) combinations.")
ASSUMPTIONS = ["develop-mode SOURCE workspaces of a changed checkout variant are re-used in place by design (user sources are never emptied); files left "
               "there by a previous checkoutScript are reported as the known mechanism, not compared against a clean checkout",
               "directory <-> variant mapping is read from `bob query-path` (CLI) and Step.getVariantId (API)"]


def plan(tier, seed):
    n = 6 if tier == "quick" else 300
    cases = [{"seed": common.subseed(seed, "c16", i), "mode": ["dev", "build"][i % 2], "edits": 3 if tier == "quick" else 6} for i in range(n)]
    cases += [{"seed": common.subseed(seed, "c16m", i), "mode": ["dev", "build"][i % 2], "edits": 2 if tier == "quick" else 4, "mixed": True, "_first": i < 2} for i in range(2 if tier == "quick" else 60)]
    cases.append({"seed": seed, "devsrc": True, "_first": True})
    return cases


def run_devsrc(case):
    """Dedicated input for the known mechanism: a develop-mode source directory handed to a different checkout variant."""
    counters = dict.fromkeys(REQUIRED_COUNTERS, 0)
    viol = []
    k0 = lambda: {k: [] for k in projgen.KINDS}
    model = {"recipes": {"root": {"root": True, "env": {}, "vars": {"checkout": ["V"], "build": [], "package": []}, "weak": k0(), "tok": {"checkout": None, "build": None, "package": None},
                                  "tools": k0(), "toolsWeak": k0(), "depends": [],
                                  "raw": {"checkoutDeterministic": True, "checkoutScript": "echo \"$V\" > \"$V.txt\"\n", "buildScript": "ls \"$1\" > listing.txt\n",
                                          "packageScript": "cp \"$1/listing.txt\" .\n"}}},
             "classes": {}, "sources": {}, "defines": {"V": "a"}, "default": {}}
    with common.scratch("c16s") as base:
        for mode in ("dev", "build"):
            W = os.path.join(base, "W" + mode); projgen.write_project(W, model)
            m1 = dict(model, defines={"V": "a"}); m2 = dict(model, defines={"V": "b"})
            r1 = e2e.build(W, m1, mode); r2 = e2e.build(W, m2, mode)
            if r1.returncode or r2.returncode:
                return result("inconclusive", note="devsrc builds failed: " + (r1 if r1.returncode else r2).tail(300))
            d, _ = e2e.dists(W, m2, mode, field="src")
            counters["states"] += 2; counters["directories_checked"] += 1
            files = sorted(os.listdir(d["root"])) if "root" in d else None
            if files != ["b.txt"]:
                viol.append(violation("develop-src-dir-keeps-files-of-previous-checkout-variant" if mode == "dev" else "release-src-dir-keeps-files-of-previous-checkout-variant",
                                      {"mode": mode, "files_in_src_workspace": files, "expected": ["b.txt"], "history": ["-DV=a", "-DV=b"]}))
    return result("held", sigs=["devsrc|dev", "devsrc|build"], counters=counters, violations=viol, sample={"kind": "devsrc"})


def variant_model(rnd):
    k0 = lambda: {k: [] for k in projgen.KINDS}
    T = lambda: projgen.new_tok(rnd)
    feats = rnd.sample(["classes", "multi", "tools", "src", "weak", "fwd"], rnd.randrange(2, 5)) + ["src"]
    m = projgen.gen_model(rnd, rnd.randrange(4, 8), feats)
    names = list(m["recipes"])
    root = names[0]
    # one recipe consumed under several values of a strong variable
    m["recipes"]["var"] = {"env": {}, "vars": {"checkout": [], "build": ["VV"], "package": []}, "weak": k0(), "tok": {"checkout": None, "build": T(), "package": T()},
                           "tools": k0(), "toolsWeak": k0(), "depends": []}
    for i, n in enumerate(names[:3]):
        m["recipes"][n]["depends"].append({"name": "var", "env": {"VV": str(i % 2)}})
    # twins: two recipes with identical content (same Variant-Ids)
    tw = {"env": {}, "vars": k0(), "weak": k0(), "tok": {"checkout": None, "build": None, "package": None}, "tools": k0(), "toolsWeak": k0(), "depends": [],
          "raw": {"buildScript": "echo twin > out.txt\n", "packageScript": "cp \"$1/out.txt\" .\n"}}
    m["recipes"]["twin-a"] = copy.deepcopy(tw); m["recipes"]["twin-b"] = copy.deepcopy(tw)
    m["recipes"][root]["depends"] += [{"name": "twin-a"}, {"name": "twin-b"}]
    m["evlog"] = True
    return m


def variant_edit(model, rnd):
    k = rnd.random()
    if k < 0.35:
        # change / add the value under which `var` is consumed somewhere: new variants appear next to surviving ones
        users = [(n, d) for n, r in model["recipes"].items() for d in r.get("depends", []) if d["name"] == "var"]
        if users:
            n, d = rnd.choice(users)
            d["env"]["VV"] = rnd.choice([x for x in ["0", "1", "2", "3"] if x != d["env"].get("VV")])
            return ("var-dep-env", n, d["env"]["VV"])
    if k < 0.5:
        cands = [n for n in model["recipes"] if n not in ("var", "twin-a", "twin-b") and not any(d["name"] == "var" for d in model["recipes"][n].get("depends", []))]
        if cands:
            n = rnd.choice(cands)
            model["recipes"][n]["depends"].append({"name": "var", "env": {"VV": rnd.choice(["0", "1", "2"])}})
            return ("var-dep-add", n)
    return edits.apply_edit(model, rnd, ["tok", "tok", "dep_env", "dep_remove", "dep_add", "env_samelen", "src_mod", "class_tok"])


def vid_table(proj, model, mode):
    """package path -> {kind: (variant-id, recipe)} through the API (forked child)"""
    r, w = os.pipe()
    pid = os.fork()
    if pid == 0:
        out = {}
        try:
            os.close(r)
            devnull = os.open(os.devnull, os.O_WRONLY); os.dup2(devnull, 2); os.dup2(devnull, 1)
            with bobapi.project(proj, defines=model.get("defines"), sandbox=(mode == "build")) as (rs, ps):
                for e in dump.tree_dump(ps, with_scripts=False):
                    out[e["path"]] = {k: (e[k2]["vid"] if e[k2] else None) for k, k2 in (("src", "checkout"), ("build", "build"), ("dist", "package"))}
                    out[e["path"]]["recipe"] = e["recipe"]
        except BaseException as ex:
            out = {"__error__": "%s: %s" % (type(ex).__name__, str(ex)[:200])}
        with os.fdopen(w, "w") as f:
            json.dump(out, f)
        os._exit(0)
    os.close(w)
    with os.fdopen(r) as f:
        data = f.read()
    os.waitpid(pid, 0)
    return json.loads(data) if data else {"__error__": "no output"}


def dir_maps(proj, model, mode):
    out = {}
    for field in ("src", "build", "dist"):
        d, r = e2e.dists(proj, model, mode, field=field)
        out[field] = {k: os.path.relpath(v, proj) for k, v in d.items()}
    return out


def all_workspaces(proj):
    out = set()
    for top in ("dev", "work"):
        for p, ds, fs in os.walk(os.path.join(proj, top)):
            if os.path.basename(p) == "workspace":
                out.add(os.path.relpath(p, proj)); ds[:] = []
    return out


def run_case(case):
    if case.get("devsrc"):
        return run_devsrc(case)
    common.repo_path_setup()
    import bob.input
    rnd = random.Random(case["seed"])
    counters = dict.fromkeys(REQUIRED_COUNTERS, 0)
    viol, sigs, hist = [], set(), []
    mode = case["mode"]
    model = bobapi.gen_valid_model(rnd, lambda: variant_model(rnd))
    if model is None:
        return result("trivial", counters=counters, note="no valid model")
    prev = None          # (recipe, kind, vid) -> dir of previous state
    with common.scratch("c16") as base:
        W = os.path.join(base, "W")
        evlog = os.path.join(base, "ev.log")
        for step in range(case["edits"] + 1):
            if step:
                m2 = copy.deepcopy(model)
                ed = variant_edit(m2, rnd)
                hist.append(ed)
                model = m2
            projgen.write_project(W, model)
            r = e2e.build(W, model, mode, evlog=evlog)
            ctx = {"mode": mode, "step": step, "history": hist[-4:]}
            if r.returncode != 0:
                if step == 0:
                    return result("trivial", counters=counters, note="initial build failed: " + r.tail(300))
                # the edit made the project unbuildable (e.g. incompatible variants): undo and go on
                model = prev_model; hist.append(("undo-invalid",)); continue
            prev_model = copy.deepcopy(model)
            other = None
            if case.get("mixed"):
                # the same project is also used in the other mode (develop <-> release): its directories are current as well
                other = "build" if mode == "dev" else "dev"
                ro = e2e.build(W, model, other)
                if ro.returncode != 0:
                    other = None
                else:
                    counters["states_built_in_both_modes"] = counters.get("states_built_in_both_modes", 0) + 1
            counters["states"] += 1
            vt = vid_table(W, model, mode)
            if "__error__" in vt:
                return result("inconclusive", counters=counters, note="vid table: " + vt["__error__"])
            dm = dir_maps(W, model, mode)
            # (1) directory -> variants
            cur = {}
            for kind in ("src", "build", "dist"):
                groups = {}
                for path, d in dm[kind].items():
                    if path not in vt or vt[path].get(kind) is None:
                        continue
                    ident = (vt[path][kind], vt[path]["recipe"] if mode == "dev" else None)
                    groups.setdefault(d, set()).add(ident)
                    cur[(vt[path]["recipe"], kind, vt[path][kind])] = d
                    counters["directories_checked"] += 1
                for d, idents in groups.items():
                    if len(idents) > 1:
                        viol.append(violation("different-variants-share-a-directory", dict(ctx, kind=kind, directory=d, variants=sorted((i[0][:10], i[1]) for i in idents))))
                    if len([p for p, dd in dm[kind].items() if dd == d]) > 1:
                        counters["shared_dir_groups"] += 1
            # (2) surviving variants keep their directory (release mode: directories are per variant and persisted; develop: per recipe+variant)
            if prev is not None:
                for key, d in cur.items():
                    if key in prev:
                        counters["variants_surviving_an_edit"] += 1
                        if prev[key] != d:
                            viol.append(violation("surviving-variant-changed-its-directory", dict(ctx, recipe=key[0], kind=key[1], old=prev[key], new=d)))
            prev = cur
            # (3) content of build/dist dirs equals a clean build
            C = os.path.join(base, "C%d" % step, "x"); projgen.write_project(C, model)
            rc = e2e.build(C, model, mode)
            if rc.returncode == 0:
                for field in ("dist", "build"):
                    dc, _ = e2e.dists(C, model, mode, field=field)
                    dw = {k: os.path.join(W, v) for k, v in dm[field].items()}
                    diffs = e2e.compare_dists(dw, dc)
                    if diffs:
                        viol.append(violation("reused-directory-not-emptied-or-result-differs-from-clean-build", dict(ctx, kind=field, differences=diffs)))
                        break
            shutil.rmtree(os.path.join(base, "C%d" % step), ignore_errors=True)
            nvar = {}
            for (rec, kind, vid) in cur:
                if kind == "dist": nvar[rec] = nvar.get(rec, 0) + 1
            sigs.add("%s|%s|maxvar%d" % (mode, hist[-1][0] if hist else "initial", max(nvar.values() or [0])))
            # (4) clean
            if step % 2 == 1 or step == case["edits"]:
                with_src = rnd.random() < 0.4
                flags = ["--develop" if mode == "dev" else "--release"] + (["-s"] if with_src else []) + projgen.define_args(model)
                before = all_workspaces(W)
                current = {d for kind in dm for d in dm[kind].values()}
                if other:
                    dmo = dir_maps(W, model, other)
                    current |= {d for kind in dmo for d in dmo[kind].values()}
                rd = common.bob(["clean", "--dry-run"] + flags, cwd=W, timeout=300)
                counters["dry_runs"] += 1
                if rd.returncode != 0:
                    viol.append(violation("clean-dry-run-failed", dict(ctx, output=rd.tail(300)))); break
                victims = {os.path.normpath(l[3:].strip()) for l in rd.stdout.splitlines() if l.startswith("rm ")}
                if all_workspaces(W) != before:
                    viol.append(violation("clean-dry-run-deleted-directories", dict(ctx, deleted=sorted(before - all_workspaces(W))[:5]))); break
                rcl = common.bob(["clean"] + flags, cwd=W, timeout=300)
                counters["clean_invocations"] += 1
                if rcl.returncode != 0:
                    viol.append(violation("clean-failed", dict(ctx, output=rcl.tail(300)))); break
                after = all_workspaces(W)
                deleted = before - after
                counters["garbage_dirs_deleted"] += len(deleted)
                if deleted != {v for v in victims if v in before}:
                    viol.append(violation("dry-run-output-differs-from-real-clean", dict(ctx, dry=sorted(victims)[:6], deleted=sorted(deleted)[:6])))
                bad = deleted & current
                if bad:
                    viol.append(violation("clean-deleted-directory-of-a-current-package", dict(ctx, directories=sorted(bad)[:5], flags=flags)))
                srcdirs = {d for d in deleted if "/src/" in "/" + d + "/"}
                if srcdirs and not with_src:
                    viol.append(violation("clean-deleted-source-directory-without-s", dict(ctx, directories=sorted(srcdirs)[:5])))
                # nothing up to date was lost: an immediate build executes no build/package step
                open(evlog, "w").close()
                r2 = e2e.build(W, model, mode, evlog=evlog)
                ex = [(n, k) for n, k, _ in e2e.read_evlog(evlog) if k in ("build", "package")]
                if r2.returncode != 0:
                    viol.append(violation("build-after-clean-failed", dict(ctx, output=r2.tail(300))))
                elif ex:
                    viol.append(violation("clean-removed-up-to-date-results", dict(ctx, re_executed=ex[:6], deleted=sorted(deleted)[:6])))
                if other and not viol:
                    open(evlog, "w").close()
                    r3 = e2e.build(W, model, other, evlog=evlog)
                    ex = [(n, k) for n, k, _ in e2e.read_evlog(evlog) if k in ("build", "package")]
                    if r3.returncode != 0:
                        viol.append(violation("build-after-clean-failed", dict(ctx, other_mode=other, output=r3.tail(300))))
                    elif ex:
                        viol.append(violation("clean-removed-up-to-date-results", dict(ctx, other_mode=other, re_executed=ex[:6], deleted=sorted(deleted)[:6])))
                    sigs.add("%s|clean|other-mode-%s" % (mode, other))
                sigs.add("%s|clean|%s|deleted%d" % (mode, "s" if with_src else "-", min(len(deleted), 3)))
            if viol:
                break
    return result("held", sigs=sorted(sigs), counters=counters, violations=viol[:4], sample={"mode": mode, "history": hist})


LEVEL_TEXT = ("Exploration: seeded histories with builds and cleans in between; directory assignment (CLI) is joined with variant identity (API) "
              "after every state, directory contents are compared with a clean build, and every clean is bracketed by directory listings, a "
              "dry run and a follow-up build watched through the step event log.")
LEVEL_NOTE = "Source directories of changed checkout variants in develop mode are judged only for SCM-less leftovers (known mechanism), see DESIGN.md."
TECHNIQUE = "state-invariant monitor on the directory<->variant relation across histories + before/after file-system snapshots around `bob clean` + step event log"
