"""C13 Steps run in exactly the declared environment.

Generated projects whose every checkout / build / package / fingerprint script dumps what it observes (NUL separated
environment and arguments, tool lookup, LD_LIBRARY_PATH; in sandbox modes additionally every canary file it can see and a
series of write attempts).  The expectation comes from the generator's own model of the documented environment rules
(default.yaml + -D -> environment -> dependency environment -> privateEnvironment / metaEnvironment -> {checkout,build,
package}Vars[Weak]) - NOT from Bob's API, so that a wrong computation inside Bob cannot vouch for itself.  Values are
drawn from a hostile alphabet and written through Bob's own escaping.
The host environment of the bob process is hostile too (BASH_ENV, ENV, exported functions, SHELLOPTS, PS4, LD_PRELOAD,
locale and random variables); whitelisting is exercised through -e, whitelist, whitelistRemove; -E is the documented exception.
Writes of sandboxed steps are judged on the host after the run.  The namespace-sandbox helper used is an ASan+UBSan build of
the tree's sources; sanitizer reports are violations.
"""
import hashlib, json, os, random, re, shutil, subprocess, sys
from lib import common, bobapi
from lib.common import result, violation

ID = "C13"
LEVEL = "exploration"
BATCH = 1
CASE_TIMEOUT = 1800
MIN_NONTRIVIAL = 20
REQUIRED_COUNTERS = ["projects", "step_dumps_checked", "variables_compared", "hostile_values", "arguments_compared", "tool_lookups",
                     "fingerprint_dumps_checked", "host_variables_injected", "sandboxed_steps_checked", "canary_visibility_checks", "write_probes_judged",
                     "sanitizer_helper_runs"]
RULE = ("per case one project (root, two intermediate packages reaching the same library with different / unset variables, a tool provider with "
        "library path, a checkout dependency, a fingerprinted library, optional host-mounted sandbox image) built once per mode in "
        "{no sandbox, no sandbox -E, slim, dev, strict, yes}; distinct_nontrivial = distinct (mode, step kind, value class) combinations observed.")
ASSUMPTIONS = ["environment rules as documented in the manual for default.yaml environment, -D, environment, depends[].environment, privateEnvironment, "
               "metaEnvironment, provideVars with use:[environment], *Vars / *VarsWeak; no classes, no conditions (C17/C02 cover those)",
               "bash's own variables PWD OLDPWD SHLVL _ are not judged; PATH is judged for its tool prefix, LD_LIBRARY_PATH exactly",
               "NUL cannot occur in environment values; variable names follow the recipe schema",
               "in image sandboxes (dev/strict/yes) a whitelisted HOME is replaced by the sandbox user's home directory - not judged there",
               "sandbox clause only where user namespaces work (probed with the helper's -C); writes are judged by files that exist on the host afterwards"]

IGNORE = {"PWD", "OLDPWD", "SHLVL", "_"}
DEFAULT_WHITELIST = {"PATH", "TERM", "SHELL", "USER", "HOME"}


def plan(tier, seed):
    n = 8 if tier == "quick" else 400
    modes_q = [["none", "slim"], ["none-E", "strict"], ["none", "dev"], ["slim", "yes"]]
    cases = [{"seed": common.subseed(seed, "c13", i), "modes": modes_q[i % 4] if tier == "quick" else ["none", "none-E", "slim", "dev", "strict", "yes"]} for i in range(n)]
    cases += [{"seed": common.subseed(seed, "c13h", i), "helper": True, "n": 60 if tier == "quick" else 400, "_first": i < 2} for i in range(1 if tier == "quick" else 8)]
    return cases


# ------------------------------------------------------------------ encoders
def subst_escape(v):
    """literal text -> Bob string-substitution source that evaluates to it"""
    return re.sub(r'([\\$"\'])', r'\\\1', v)


def yq(s):
    """YAML double quoted scalar"""
    out = []
    for ch in s:
        o = ord(ch)
        if ch == '"':
            out.append('\\"')
        elif ch == "\\":
            out.append("\\\\")
        elif 0x20 <= o < 0x7f:
            out.append(ch)
        elif o < 0x100:
            out.append("\\x%02x" % o)
        elif o < 0x10000:
            out.append("\\u%04x" % o)
        else:
            out.append("\\U%08x" % o)
    return '"' + "".join(out) + '"'


PIECES = ["a", "Z", "0", " ", "  ", "'", '"', "$", "${", "}", "$(id)", "`id`", "\\", "\\\\", "\\n", "\n", "\t", "\r", "\x01", "\x1b[31m", "\x7f", "!", "#", "*", "?", "~", ";", "&", "|",
          "<", ">", "(", ")", "[", "]", "{", "=", ",", ":", "%", "-", "--", "é", "ß", "中文", "\U0001F600", "é", "‮", " ", "$HOME", "${PATH}", "$$", "\\$", "\\'", "'\"'"]


def hostile(rnd):
    k = rnd.random()
    if k < 0.08:
        return "", "empty"
    if k < 0.2:
        return rnd.choice(["plain", "v1", "release"]), "plain"
    n = rnd.choice([1, 2, 3, 5, 9])
    v = "".join(rnd.choice(PIECES) for _ in range(n))
    if rnd.random() < 0.15:
        v = "-" + v
    if rnd.random() < 0.15:
        v = v + rnd.choice(["\n", " ", "\n\n"])
    cls = "newline" if "\n" in v else "control" if re.search(r"[\x00-\x1f\x7f]", v) else "unicode" if re.search(r"[^\x00-\x7f]", v) else "quote-dollar" if re.search(r"[\"'$\\`]", v) else "punct"
    return v, cls


# ------------------------------------------------------------------ model
KINDS = ("checkout", "build", "package")
VARKEY = {"checkout": "checkoutVars", "build": "buildVars", "package": "packageVars"}


def gen_model(rnd, base):
    names = ["V%d" % i for i in range(6)] + ["lower_case", "_UNDER", "X", "FLAVOR", "HOME", "USER", "LONG_" + "N" * 40]
    vclass = {}
    def val():
        v, c = hostile(rnd)
        vclass[v] = c
        return v
    def envdict(k):
        return {n: val() for n in rnd.sample(names, k)}
    def steps(cands):
        d = {}
        for kind in KINDS:
            vs = rnd.sample(cands, rnd.randrange(0, min(len(cands), 5) + 1))
            weak = [v for v in vs if rnd.random() < 0.25]
            d[kind] = {"vars": [v for v in vs if v not in weak], "weak": weak}
        return d
    m = {"default_env": envdict(rnd.randrange(0, 4)), "defines": envdict(rnd.randrange(0, 3)), "host_subst": None, "recipes": {}, "vclass": vclass}
    if rnd.random() < 0.6:
        m["host_subst"] = ("FROMHOST", "HOSTSRC_%d" % rnd.randrange(100), val())     # default.yaml: FROMHOST: "${HOSTSRC_n}"
    allnames = names + ["FROMHOST", "PV_lib", "PV_tl", "META1"]
    def recipe(**kw):
        r = {"env": envdict(rnd.randrange(0, 4)), "penv": envdict(rnd.randrange(0, 3)), "menv": ({"META1": val()} if rnd.random() < 0.4 else {}),
             "steps": steps(allnames), "deps": [], "checkout": rnd.random() < 0.6}
        r.update(kw)
        return r
    R = m["recipes"]
    R["lib"] = recipe(pvars={"PV_lib": val()}, fingerprint={"vars": rnd.sample(allnames, rnd.randrange(0, 4))} if rnd.random() < 0.7 else None, checkout=True)
    for s in R["lib"]["steps"].values():           # the library consumes FLAVOR and X somewhere, so that instances differ
        pass
    R["lib"]["steps"]["build"]["vars"] = sorted(set(R["lib"]["steps"]["build"]["vars"]) | {"FLAVOR", "X"})
    R["lib"]["env"].pop("FLAVOR", None); R["lib"]["env"].pop("X", None); R["lib"]["penv"].pop("FLAVOR", None); R["lib"]["penv"].pop("X", None)
    R["tl"] = recipe(tool={"name": "t1", "path": "bin", "libs": ["lib", "lib64"]}, pvars={"PV_tl": val()})
    R["gen"] = recipe()
    def dep(name, **kw):
        d = {"name": name, "env": {}}
        d.update(kw)
        return d
    # intermediate packages: one leaves FLAVOR/X unset (if nobody above sets them), the other sets them for the dependency
    order = ["first", "second"]
    rnd.shuffle(order)
    R[order[0]] = recipe(deps=[dep("lib", use_env=rnd.random() < 0.5)])
    for n_ in ("FLAVOR", "X"):
        R[order[0]]["env"].pop(n_, None)
    R[order[1]] = recipe(deps=[dep("lib", env={n_: val() for n_ in rnd.sample(["FLAVOR", "X", "V1"], rnd.randrange(1, 4))}, use_env=rnd.random() < 0.5)])
    R["app"] = recipe(deps=[dep("gen", checkoutDep=True), dep("lib", env=({"FLAVOR": val()} if rnd.random() < 0.5 else {}))], checkout=True)
    rootdeps = [dep("tl", tools=True, use_env=rnd.random() < 0.5)] + [dep(n_) for n_ in rnd.sample(["first", "second", "app"], 3)]
    if rnd.random() < 0.5:
        rootdeps.append(dep("lib", env={"X": val()}))
    R["root"] = recipe(deps=rootdeps, root=True, tools_used={k: ["t1"] for k in KINDS if rnd.random() < 0.7})
    for n_ in ("FLAVOR", "X"):                      # keep them unset at the top in most projects
        if rnd.random() < 0.8:
            m["default_env"].pop(n_, None); m["defines"].pop(n_, None); R["root"]["env"].pop(n_, None)
    for n_ in ("first", "second", "app"):
        R[n_]["tools_used"] = {k: ["t1"] for k in KINDS if rnd.random() < 0.4}
    m["whitelist"] = rnd.sample(["WL_A", "WL_B", "LC_ALL"], rnd.randrange(0, 3))
    m["whitelistRemove"] = rnd.sample(["TERM", "SHELL", "WL_B"], rnd.randrange(0, 2))
    m["cmdline_e"] = rnd.sample(["WL_C", "PS4X"], rnd.randrange(0, 2))
    return m


def intended(m, host):
    """package path -> {kind: {var: value}} according to the documented rules; also args/tools expectations"""
    out = {}
    start = {}
    for k, v in m["default_env"].items():
        start[k] = v
    if m["host_subst"]:
        start[m["host_subst"][0]] = host.get(m["host_subst"][1], "")
    start.update(m["defines"])
    def visit(name, path, inherited):
        r = m["recipes"][name]
        e_pkg = dict(inherited); e_pkg.update(r["env"])
        provided, forwarded = {}, {}
        for d in r["deps"]:
            child_in = dict(e_pkg); child_in.update(forwarded); child_in.update(d["env"])
            visit(d["name"], path + [d["name"]], child_in)
            if d.get("use_env"):
                provided.update(m["recipes"][d["name"]].get("pvars", {}))
                if d.get("tools"):          # written with forward: True - provided variables reach the following dependencies too
                    forwarded.update(m["recipes"][d["name"]].get("pvars", {}))
        e_steps = dict(e_pkg); e_steps.update(provided); e_steps.update(r["penv"]); e_steps.update(r["menv"])
        st = {}
        names = []          # "A variable that is consumed in one step is also set in the following."
        for kind in KINDS:
            if kind == "checkout" and not r["checkout"]:
                continue
            names = names + r["steps"][kind]["vars"] + r["steps"][kind]["weak"]
            st[kind] = {n_: e_steps[n_] for n_ in names if n_ in e_steps}
        fp = None
        if r.get("fingerprint"):      # "Only variables that are selected by {build,package}Vars can be used"
            fp = [{n_: st[kind][n_] for n_ in r["fingerprint"]["vars"] if n_ in st[kind]} for kind in ("build", "package")]
        weak, acc = {}, set()
        strongacc = set()
        for kind in KINDS:
            if kind == "checkout" and not r["checkout"]:
                continue
            acc |= set(r["steps"][kind]["weak"]); strongacc |= set(r["steps"][kind]["vars"])
            weak[kind] = acc - strongacc
        out["/".join(path)] = {"steps": st, "recipe": name, "fingerprint": fp, "weak": weak}
    visit("root", ["root"], start)
    return out


DUMP = r'''
_d="$PWD/_obs.@KIND@"
/usr/bin/env -0 > "$_d.env"
printf '%s\0' "$@" > "$_d.args"
for _a in "$@" ; do if [ -e "$_a/_id" ] ; then cat "$_a/_id" ; else echo "-" ; fi ; done > "$_d.argids"
{ type -p t1 || echo NOTFOUND ; } > "$_d.tool"
printf '%s' "${LD_LIBRARY_PATH-UNSET}" > "$_d.ld"
echo "@RECIPE@:@KIND@" > _id
echo "canary @RECIPE@ @KIND@" > "canary-@RECIPE@-@KIND@.txt"
'''

PROBE = r'''
# sandbox observations: visible canaries and write attempts (judged on the host afterwards)
{ { find "@PROJ@" /bob -name 'canary-*.txt' 2>/dev/null || true ; } | while read -r _c ; do if cat "$_c" >/dev/null 2>&1 ; then echo "$_c" ; fi ; done ; } | sort > "$_d.canaries"
for _a in "$@" "${BOB_TOOL_PATHS[@]}" ; do ( : > "$_a/probe-@RECIPE@-@KIND@-dep" ) 2>/dev/null || true ; done
for _t in "@PROJ@" "@PROJ@/recipes" "@PROJ@/dev" "@OUTSIDE@" /usr /var/tmp "$HOME" /dev/shm ; do ( : > "$_t/probe-@TOKEN@-@RECIPE@-@KIND@" ) 2>/dev/null || true ; done
( echo tampered >> "@PROJ@/recipes/root.yaml" ) 2>/dev/null || true
( : > /tmp/private-tmp-ok ) 2>/dev/null && echo ok > "$_d.tmpwrite" || echo failed > "$_d.tmpwrite"
'''


def write_project(proj, m, token, outside, sandbox_image, sandboxed):
    os.makedirs(os.path.join(proj, "recipes"), exist_ok=True)
    cfg = ['bobMinimumVersion: "0.25"']
    open(os.path.join(proj, "config.yaml"), "w").write("\n".join(cfg) + "\n")
    d = []
    env = {k: subst_escape(v) for k, v in m["default_env"].items()}
    if m["host_subst"]:
        env[m["host_subst"][0]] = "${%s}" % m["host_subst"][1]
    if env:
        d.append("environment:")
        d += ["  %s: %s" % (k, yq(v)) for k, v in env.items()]
    if m["whitelist"]:
        d.append("whitelist: [%s]" % ", ".join(m["whitelist"]))
    if m["whitelistRemove"]:
        d.append("whitelistRemove: [%s]" % ", ".join(m["whitelistRemove"]))
    open(os.path.join(proj, "default.yaml"), "w").write("\n".join(d) + "\n")
    for name, r in m["recipes"].items():
        y = []
        if r.get("root"):
            y.append("root: True")
        deps = list(r["deps"])
        if deps or (sandbox_image and r.get("root")):
            y.append("depends:")
            if sandbox_image and r.get("root"):
                y += ["  - name: sbx", "    use: [sandbox]", "    forward: True"]
            for dd in deps:
                y.append("  - name: %s" % dd["name"])
                use = ["result", "deps"] + (["tools"] if dd.get("tools") else []) + (["environment"] if dd.get("use_env") else [])
                if dd.get("tools"):
                    use.remove("result")
                y.append("    use: [%s]" % ", ".join(use))
                if dd.get("tools"):
                    y.append("    forward: True")
                if dd.get("checkoutDep"):
                    y.append("    checkoutDep: True")
                if dd["env"]:
                    y.append("    environment:")
                    y += ["      %s: %s" % (k, yq(subst_escape(v))) for k, v in dd["env"].items()]
        for key, mk in (("env", "environment"), ("penv", "privateEnvironment"), ("menv", "metaEnvironment"), ("pvars", "provideVars")):
            if r.get(key):
                y.append(mk + ":")
                y += ["  %s: %s" % (k, yq(subst_escape(v))) for k, v in r[key].items()]
        for kind in KINDS:
            if kind == "checkout" and not r["checkout"]:
                continue
            s = r["steps"][kind]
            if s["vars"]:
                y.append("%s: [%s]" % (VARKEY[kind], ", ".join(s["vars"])))
            if s["weak"]:
                y.append("%sWeak: [%s]" % (VARKEY[kind], ", ".join(s["weak"])))
            tools = r.get("tools_used", {}).get(kind)
            if tools:
                y.append("%sTools: [%s]" % (kind, ", ".join(tools)))
            script = DUMP + (PROBE if sandboxed else "")
            script = script.replace("@KIND@", kind).replace("@RECIPE@", name).replace("@PROJ@", proj).replace("@TOKEN@", token).replace("@OUTSIDE@", outside)
            if kind == "package" and r.get("tool"):
                script += '\nmkdir -p bin lib lib64\nprintf "#!/bin/sh\\necho t1\\n" > bin/t1\nchmod +x bin/t1\n'
            if kind == "checkout":
                y.append("checkoutDeterministic: True")
            y.append("%sScript: |" % kind)
            y += ["    " + l for l in script.splitlines()]
        if r.get("tool"):
            t = r["tool"]
            y += ["provideTools:", "  %s:" % t["name"], "    path: %s" % t["path"], "    libs: [%s]" % ", ".join(t["libs"])]
        if r.get("fingerprint"):
            fpd = os.path.join(outside, "fp")
            y.append("fingerprintIf: True")
            if r["fingerprint"]["vars"]:
                y.append("fingerprintVars: [%s]" % ", ".join(r["fingerprint"]["vars"]))
            y.append("fingerprintScript: |")
            y += ["    mkdir -p %s 2>/dev/null || true" % fpd, "    /usr/bin/env -0 > %s/fp-$$.env 2>/dev/null || true" % fpd, "    echo fingerprint"]
        open(os.path.join(proj, "recipes", name + ".yaml"), "w").write("\n".join(y) + "\n")
    if sandbox_image:
        open(os.path.join(proj, "recipes", "sbx.yaml"), "w").write(
            'packageScript: |\n    echo "canary sbx package" > canary-sbx-package.txt\n'
            'provideSandbox:\n    paths: ["/usr/local/bin", "/usr/bin", "/bin", "/usr/sbin", "/sbin"]\n    mount:\n        - /bin\n        - /etc\n        - /lib\n        - /usr\n'
            '        - ["/lib32", "/lib32", [nofail]]\n        - ["/lib64", "/lib64", [nofail]]\n        - ["/sbin", "/sbin", [nofail]]\n')


def host_env(rnd, m, base):
    """hostile host environment for the bob process"""
    bashenv = os.path.join(base, "bashenv.sh")
    open(bashenv, "w").write('echo sourced >> "%s"\n' % os.path.join(base, "BASH_ENV_WAS_SOURCED"))
    h = {
        "BASH_ENV": bashenv, "ENV": bashenv, "BASH_FUNC_cat%%": "() { echo hijacked; }", "BASH_FUNC_leak%%": "() { :; }",
        "PS4": "+leak ", "LD_PRELOAD": "", "LC_ALL": "C.UTF-8", "LC_CTYPE": "C.UTF-8", "CDPATH": "/", "GLOBIGNORE": "*", "POSIXLY_CORRECT": "1",
        "WL_A": "white-a " + hostile(rnd)[0].replace("\x00", ""), "WL_B": "white-b", "WL_C": "white-c '\"$", "PS4X": "ps4x",
        "RANDOM_HOST_%d" % rnd.randrange(1000): "leak", "V0": "host-v0", "FLAVOR": "host-flavor", "X": "host-x", "META1": "host-meta", "PV_lib": "host-pv",
        "TERM": "xterm-verif", "SHELL": "/bin/bash", "USER": "verifuser",
    }
    del h["POSIXLY_CORRECT"]          # changes bash semantics of the recipes' own scripts when preserved with -E
    if m["host_subst"]:
        h[m["host_subst"][1]] = m["host_subst"][2]
    return h


def parse_env(path):
    raw = open(path, "rb").read()
    d = {}
    for item in raw.split(b"\0"):
        if not item:
            continue
        k, _, v = item.partition(b"=")
        d[k.decode("utf-8", "surrogateescape")] = v.decode("utf-8", "surrogateescape")
    return d


def build_asan_helper(base):
    src = os.path.join(common.REPO, "src", "namespace-sandbox")
    out = os.path.join(base, "bob-namespace-sandbox-asan")
    cmd = ["clang", "-std=c99", "-g", "-O1", "-fsanitize=address,undefined", "-fno-sanitize-recover=all", "-fno-omit-frame-pointer", "-o", out] + \
          [os.path.join(src, f) for f in ("namespace-sandbox.c", "network-tools.c", "process-tools.c")] + ["-lm"]
    r = subprocess.run(cmd, capture_output=True, text=True)
    if r.returncode:
        return None, r.stderr[-400:]
    return out, None


def run_helper_case(case):
    """direct argument-grammar workload for the sanitizer build of the namespace-sandbox helper"""
    rnd = random.Random(case["seed"])
    counters = dict.fromkeys(REQUIRED_COUNTERS, 0)
    counters["helper_direct_invocations"] = 0
    viol, sigs = [], set()
    with common.scratch("c13h") as base:
        helper, err = build_asan_helper(base)
        if helper is None:
            return result("inconclusive", counters=counters, note="cannot build sanitizer helper: " + err)
        log = os.path.join(base, "san")
        env = dict(os.environ, ASAN_OPTIONS="detect_leaks=0:abort_on_error=0:halt_on_error=1:log_path=" + log, UBSAN_OPTIONS="print_stacktrace=1:log_path=" + log)
        srcs = []
        for i in range(40):
            d = os.path.join(base, "m%d" % i); os.makedirs(d); open(os.path.join(d, "f"), "w").write("x"); srcs.append(d)
        for n in range(case["n"]):
            root = os.path.join(base, "root%d" % n); os.makedirs(root)
            a = ["-S", root]
            shape = rnd.choice(["few", "many-mounts", "argfile", "long", "odd", "nested-argfile"])
            k = {"few": 2, "many-mounts": rnd.choice([15, 16, 17, 31, 32, 33, 40]), "argfile": rnd.choice([3, 19, 20, 21, 40]), "long": 2, "odd": 3, "nested-argfile": 5}[shape]
            opts = []
            for i in range(k):
                src = rnd.choice(srcs)
                opts += ["-M", src]
                r_ = rnd.random()
                if r_ < 0.4:
                    opts += ["-m", "/mnt/t%d" % i]
                elif r_ < 0.6:
                    opts += ["-w", "/mnt/w%d" % i]
            if rnd.random() < 0.5: opts += ["-d", "/tmp"]
            if rnd.random() < 0.3: opts += ["-d", "/" + "deep/" * rnd.choice([1, 30])]
            if rnd.random() < 0.3: opts += ["-W", rnd.choice(["/mnt/w0", "/tmp", "/nonexistent", srcs[0]])]
            if rnd.random() < 0.3: opts += ["-H", rnd.choice(["bob", "h" * 63, "h" * 300, ""])]
            if rnd.random() < 0.3: opts += [rnd.choice(["-n", "-r", "-i", "-D"])]
            if rnd.random() < 0.2: opts += ["-l", os.path.join(base, "out%d" % n), "-L", os.path.join(base, "err%d" % n)]
            if shape == "long":
                opts += ["-M", srcs[0], "-m", "/" + "p" * rnd.choice([255, 256, 4095, 4096, 5000])]
            if shape == "odd":
                opts += rnd.choice([["-M"], ["-m", "/x"], ["-M", "relative/path"], ["-M", srcs[0], "-m", "relative"], ["-M", "/nonexistent-src"], ["-S"], ["-t", "1"], ["-M", srcs[0], "-M", srcs[1], "-m", "/a", "-m", "/b"]])
            for m_ in ("/bin", "/lib", "/lib64", "/usr"):
                if os.path.exists(m_):
                    opts += ["-M", m_, "-m", m_]
            if shape in ("argfile", "nested-argfile"):
                f = os.path.join(base, "args%d" % n)
                lines = list(opts)
                if rnd.random() < 0.4:
                    lines.append("-H"); lines.append("x" * rnd.choice([8190, 8191, 8192]))
                open(f, "w").write("\n".join(lines) + rnd.choice(["\n", ""]))
                if shape == "nested-argfile":
                    f2 = os.path.join(base, "args%d-outer" % n); open(f2, "w").write("@" + f + "\n"); f = f2
                a += ["@" + f]
            else:
                a += opts
            a += ["--", "/bin/true"] if rnd.random() < 0.9 else []
            try:
                r = subprocess.run([helper] + a, env=env, capture_output=True, timeout=60, cwd=base)
                rc = r.returncode
            except subprocess.TimeoutExpired:
                rc = "timeout"
            counters["helper_direct_invocations"] += 1; counters["sanitizer_helper_runs"] += 1
            sigs.add("helper|%s|rc=%s" % (shape, rc if rc in (0, 1, "timeout") else "other"))
            reports = [f_ for f_ in os.listdir(base) if f_.startswith("san.")]
            for f_ in reports:
                txt = open(os.path.join(base, f_), errors="replace").read()
                mm = re.search(r"(ERROR: AddressSanitizer: [a-z-]+|runtime error: [^\n]{0,80})", txt)
                frame = re.search(r"#\d+ 0x[0-9a-f]+ in (\w+) [^\n]*namespace-sandbox/([\w.-]+):(\d+)", txt)
                viol.append(violation("sanitizer-report-in-namespace-sandbox-helper", {"kind": mm.group(1) if mm else "?", "function": frame.group(1) if frame else "?",
                                      "shape": shape, "arguments": [x[:60] for x in a][:30], "report": txt[:1200]}))
                os.unlink(os.path.join(base, f_))
            common.rmtree(root)
            if len(viol) >= 3:
                break
    uniq = {}
    for v in viol:
        uniq.setdefault((v["detail"]["kind"], v["detail"]["function"]), v)
    return result("held", sigs=sorted(sigs), counters=counters, violations=list(uniq.values())[:3])


def run_case(case):
    if case.get("helper"):
        return run_helper_case(case)
    rnd = random.Random(case["seed"])
    counters = dict.fromkeys(REQUIRED_COUNTERS, 0)
    viol, sigs = [], set()
    with common.scratch("c13") as base:
        m = gen_model(rnd, base)
        token = "%08x" % rnd.getrandbits(32)
        helper, err = build_asan_helper(base)
        if helper is None:
            return result("inconclusive", counters=counters, note="cannot build sanitizer helper: " + err)
        userns = subprocess.run([helper, "-C"], capture_output=True, env=dict(os.environ, ASAN_OPTIONS="detect_leaks=0")).returncode == 0
        asan_log = os.path.join(base, "asan")
        for mode in case["modes"]:
            sandboxed = mode not in ("none", "none-E")
            if sandboxed and not userns:
                counters["sandbox_modes_skipped_no_userns"] = counters.get("sandbox_modes_skipped_no_userns", 0) + 1
                continue
            proj = os.path.join(base, "p-" + mode, "proj"); outside = os.path.join(base, "p-" + mode, "outside")
            os.makedirs(outside)
            image = mode in ("dev", "strict", "yes")
            write_project(proj, m, token, outside, image, sandboxed)
            host = host_env(rnd, m, base)
            counters["host_variables_injected"] += len(host)
            args = ["dev", "root"] + {"none": [], "none-E": ["-E"], "slim": ["--slim-sandbox"], "dev": ["--dev-sandbox"], "strict": ["--strict-sandbox"], "yes": ["--sandbox"]}[mode]
            for k, v in m["defines"].items():
                args += ["-D", "%s=%s" % (k, v)]
            for n_ in m["cmdline_e"]:
                args += ["-e", n_]
            env = dict(host)
            env.update({"VERIF_SANDBOX_HELPER": helper, "ASAN_OPTIONS": "detect_leaks=0:abort_on_error=1:log_path=" + asan_log, "UBSAN_OPTIONS": "print_stacktrace=1:log_path=" + asan_log})
            before_digest = recipes_digest(proj)
            if os.path.exists(os.path.join(base, "BASH_ENV_WAS_SOURCED")):
                os.unlink(os.path.join(base, "BASH_ENV_WAS_SOURCED"))
            r = common.bob(args, cwd=proj, env=env, timeout=600)
            counters["projects"] += 1
            ctx0 = {"mode": mode}
            reports = [f for f in os.listdir(base) if f.startswith("asan.")]
            if reports:
                txt = open(os.path.join(base, reports[0]), errors="replace").read()
                mm = re.search(r"(ERROR: AddressSanitizer: [a-z-]+|runtime error: [^\n]{0,80})", txt)
                viol.append(violation("sanitizer-report-in-namespace-sandbox-helper", dict(ctx0, kind=mm.group(1) if mm else "?", function="(bob run)", report=txt[:1500])))
                for f in reports:
                    os.unlink(os.path.join(base, f))
                continue
            if r.returncode != 0:
                # is it the hostile value set that Bob refuses at parse time? then nothing was executed: count, do not judge
                if "Parse error" in (r.stdout + r.stderr) or "parse" in (r.stderr or "").lower()[:200]:
                    counters["projects_refused_at_parse_time"] = counters.get("projects_refused_at_parse_time", 0) + 1
                    sigs.add("%s|refused" % mode)
                    continue
                viol.append(violation("build-with-hostile-values-failed", dict(ctx0, output=r.tail(700))))
                continue
            if sandboxed:
                counters["sanitizer_helper_runs"] += 1
            if os.path.exists(os.path.join(base, "BASH_ENV_WAS_SOURCED")) and mode != "none-E":
                viol.append(violation("host-BASH_ENV-was-sourced-by-a-step", ctx0))
            check_project(proj, outside, m, common.clean_env(host), mode, token, counters, viol, sigs, r, before_digest)
            common.rmtree(os.path.dirname(proj))
            if len([v for v in viol if v["mechanism"] != "sandboxed-write-lands-on-host-sub-mount-of-read-only-bind"]) >= 4:
                break
    uniq = {}
    for v in viol:
        uniq.setdefault(v["mechanism"], []).append(v)
    return result("held", sigs=sorted(sigs), counters=counters, violations=[x for vs in uniq.values() for x in vs[:1]][:5], sample={"modes": case["modes"]})


def query(proj, m, mode):
    out = {}
    for kind, field in (("checkout", "src"), ("build", "build"), ("package", "dist")):
        o, r = query1(proj, m, mode, field)
        for k, v in o.items():
            out.setdefault(k, {"checkout": None, "build": None, "package": None})[kind] = v
    return out, r


def query1(proj, m, mode, field):
    args = ["query-path", "-f", "{name}|{%s}" % field, "--develop"] + {"none": [], "none-E": [], "slim": ["--slim-sandbox"], "dev": ["--dev-sandbox"], "strict": ["--strict-sandbox"], "yes": ["--sandbox"]}[mode]
    for k, v in m["defines"].items():
        args += ["-D", "%s=%s" % (k, v)]
    host = {}
    if m["host_subst"]:
        host[m["host_subst"][1]] = m["host_subst"][2]
    r = common.bob(args + ["//*"], cwd=proj, env=host, timeout=300)
    out = {}
    for l in r.stdout.splitlines():
        p = l.split("|")
        if len(p) == 2:
            out[p[0]] = p[1]
    return out, r


def recipes_digest(proj):
    h = hashlib.sha1()
    for f in sorted(os.listdir(os.path.join(proj, "recipes"))):
        h.update(f.encode()); h.update(open(os.path.join(proj, "recipes", f), "rb").read())
    return h.hexdigest()


def check_project(proj, outside, m, host, mode, token, counters, viol, sigs, run, before_digest):
    exp = intended(m, host)
    dirs, qr = query(proj, m, mode)
    if not dirs:
        viol.append(violation("query-path-failed", {"mode": mode, "output": qr.tail(300)})); return
    sandboxed = mode not in ("none", "none-E")
    white = (DEFAULT_WHITELIST | set(m["whitelist"]) | set(m["cmdline_e"])) - set(m["whitelistRemove"])
    # ----- environment, arguments, tools per step
    for path, e in sorted(exp.items()):
        if path not in dirs:
            # `//*` lists one path per package: instances that are the same package (same strong variables in every step) are merged
            strong = lambda ee: {k2: {n_: v for n_, v in vs.items() if n_ not in ee["weak"][k2]} for k2, vs in ee["steps"].items()}
            twins = [p2 for p2, e2 in exp.items() if p2 in dirs and e2["recipe"] == e["recipe"] and strong(e2) == strong(e)]
            if not twins:
                viol.append(violation("package-instances-with-different-declared-environments-collapsed", {"mode": mode, "path": path, "known": sorted(dirs)[:12],
                                      "intended": {k2: {n_: v[:40] for n_, v in vs.items()} for k2, vs in strong(e).items()}}))
            continue
        r = m["recipes"][e["recipe"]]
        for kind, want in e["steps"].items():
            ws = os.path.join(proj, dirs[path][kind]) if dirs[path][kind] else None
            ctx = {"mode": mode, "package": path, "step": kind}
            if not ws or not os.path.exists(os.path.join(ws, "_obs.%s.env" % kind)):
                viol.append(violation("step-did-not-run-or-left-no-observation", dict(ctx, workspace=dirs[path][kind]))); continue
            obs = parse_env(os.path.join(ws, "_obs.%s.env" % kind))
            counters["step_dumps_checked"] += 1
            if sandboxed:
                counters["sandboxed_steps_checked"] += 1
            if mode == "none-E":
                # documented exception: whole host environment preserved; declared variables still must have their values
                for k, v in want.items():
                    if k in e["weak"][kind]:
                        continue        # weak variables: the value of any merged instance (or the preserved host value) may show up
                    counters["variables_compared"] += 1
                    if obs.get(k) != v:
                        viol.append(violation("declared-variable-has-wrong-value", dict(ctx, variable=k, expected=v, observed=obs.get(k), value_class=m["vclass"].get(v))))
                sigs.add("%s|%s|preserved" % (mode, kind))
                continue
            allowed = dict(want)
            extra_ok = {"PATH", "LD_LIBRARY_PATH", "BOB_CWD"}
            for k in sorted(set(obs) | set(want)):
                if k in IGNORE or k in extra_ok:
                    continue
                counters["variables_compared"] += 1
                if k in e["weak"][kind]:
                    # weak variables do not distinguish packages: the value of any instance of this recipe is acceptable
                    okvals = {e2["steps"][kind].get(k) for e2 in exp.values() if e2["recipe"] == e["recipe"] and kind in e2["steps"]}
                    if None in okvals and k in white and k in host:
                        okvals.add(host[k])
                        if k == "HOME" and mode in ("dev", "strict", "yes"):
                            okvals.add(obs.get(k))
                    counters["weak_variables_compared"] = counters.get("weak_variables_compared", 0) + 1
                    if obs.get(k) not in okvals:
                        viol.append(violation("weak-variable-has-a-value-no-instance-declares", dict(ctx, variable=k, observed=obs.get(k), possible=sorted(map(str, okvals)))))
                elif k in want:
                    cls = m["vclass"].get(want[k], "host")
                    if want[k] not in ("plain", "v1", "release"):
                        counters["hostile_values"] += 1
                    if k not in obs:
                        viol.append(violation("declared-variable-missing-in-step", dict(ctx, variable=k, expected=want[k])))
                    elif obs[k] != want[k]:
                        viol.append(violation("declared-variable-has-wrong-value", dict(ctx, variable=k, expected=want[k], observed=obs[k], value_class=cls)))
                    sigs.add("%s|%s|%s" % (mode, kind, cls))
                elif k in white and k in host:
                    if k == "HOME" and mode in ("dev", "strict", "yes"):
                        pass        # image sandbox: HOME is the home directory of the sandbox user in the image's /etc/passwd
                    elif obs[k] != host[k]:
                        viol.append(violation("whitelisted-host-variable-altered", dict(ctx, variable=k, host=host[k], observed=obs[k])))
                elif k in white and k in ("HOME", "PATH"):
                    pass            # harness' own HOME
                else:
                    origin = "host" if k in host else ("recipe-undeclared" if any(k in (rr["env"], rr["penv"]) for rr in m["recipes"].values()) or True else "?")
                    viol.append(violation("undeclared-variable-visible-in-step", dict(ctx, variable=k, observed=obs[k][:80], in_host_environment=k in host, whitelisted=k in white)))
            for k in white:
                if k in host and k not in want and k not in obs and k not in ("PATH",):
                    viol.append(violation("whitelisted-host-variable-not-passed", dict(ctx, variable=k)))
            # arguments: declared order
            argids = open(os.path.join(ws, "_obs.%s.argids" % kind)).read().split()
            if kind == "build":
                wantargs = ([e["recipe"] + ":checkout"] if r["checkout"] else ["-"]) + [d["name"] + ":package" for d in r["deps"] if not d.get("tools")]
            elif kind == "package":
                wantargs = [e["recipe"] + ":build"]
            else:
                wantargs = [d["name"] + ":package" for d in r["deps"] if d.get("checkoutDep")]
            counters["arguments_compared"] += len(wantargs)
            if argids != wantargs:
                viol.append(violation("step-arguments-differ-from-declared-dependencies", dict(ctx, observed=argids, declared=wantargs)))
            # tools
            uses = any("t1" in r.get("tools_used", {}).get(k2, []) for k2 in KINDS[:KINDS.index(kind) + 1] if k2 != "checkout" or r["checkout"])
            tool = open(os.path.join(ws, "_obs.%s.tool" % kind)).read().strip()
            ld = open(os.path.join(ws, "_obs.%s.ld" % kind)).read()
            counters["tool_lookups"] += 1
            if uses:
                if not tool.endswith("/bin/t1"):
                    viol.append(violation("consumed-tool-not-on-PATH", dict(ctx, lookup=tool, PATH=obs.get("PATH"))))
                lds = [x for x in ld.split(":") if x]
                if len(lds) != 2 or not lds[0].endswith("/lib") or not lds[1].endswith("/lib64") or os.path.dirname(lds[0]) != os.path.dirname(os.path.dirname(tool)):
                    viol.append(violation("tool-libraries-not-on-LD_LIBRARY_PATH", dict(ctx, LD_LIBRARY_PATH=ld, tool=tool)))
            else:
                if tool != "NOTFOUND":
                    viol.append(violation("undeclared-tool-visible-on-PATH", dict(ctx, lookup=tool)))
                if ld not in ("", "UNSET"):
                    viol.append(violation("LD_LIBRARY_PATH-set-without-tools", dict(ctx, LD_LIBRARY_PATH=ld)))
            # sandbox: visibility
            if sandboxed:
                seen = set()
                for l in open(os.path.join(ws, "_obs.%s.canaries" % kind)).read().split("\n"):
                    mm = re.search(r"canary-([A-Za-z0-9]+)-(checkout|build|package)\.txt$", l)
                    if mm:
                        seen.add(mm.group(1) + ":" + mm.group(2))
                declared = {e["recipe"] + ":" + kind}
                if kind == "build":
                    declared |= {x for x in wantargs if x != "-"}
                elif kind == "package":
                    declared |= {e["recipe"] + ":build"} | ({e["recipe"] + ":checkout"} if r["checkout"] else set())
                else:
                    declared |= set(wantargs)
                if uses:
                    declared.add("tl:package")
                if mode in ("dev", "strict", "yes"):
                    declared.add("sbx:package")
                counters["canary_visibility_checks"] += 1
                # 'yes' mode isolates only where an image is used - everything below root has the image here
                extra = seen - declared
                missing = declared - seen - {"sbx:package"}
                if extra:
                    viol.append(violation("sandboxed-step-sees-undeclared-workspace", dict(ctx, undeclared=sorted(extra), declared=sorted(declared))))
                if missing:
                    viol.append(violation("sandboxed-step-cannot-see-declared-dependency", dict(ctx, missing=sorted(missing))))
                tw = open(os.path.join(ws, "_obs.%s.tmpwrite" % kind)).read().strip()
                if tw != "ok":
                    viol.append(violation("sandboxed-step-has-no-writable-tmp", ctx))
                sigs.add("%s|%s|visible%d" % (mode, kind, min(len(seen), 4)))
        # fingerprint env
    fpd = os.path.join(outside, "fp")
    fpe = exp.get("root/first/lib") or {}
    if os.path.isdir(fpd):
        wants = [w for e in exp.values() if e["fingerprint"] is not None for w in e["fingerprint"]]
        for f in sorted(os.listdir(fpd)):
            obs = parse_env(os.path.join(fpd, f))
            counters["fingerprint_dumps_checked"] += 1
            if mode == "none-E":
                continue
            core = {k: v for k, v in obs.items() if k not in IGNORE and k not in ("PATH", "LD_LIBRARY_PATH", "BOB_CWD")}
            def fits(w):
                return all(core.get(k) == v for k, v in w.items()) and all(k in w or (k in white and host.get(k) == v) for k, v in core.items())
            if not any(fits(w) for w in wants):
                viol.append(violation("fingerprint-script-environment-differs-from-fingerprintVars", {"mode": mode, "observed": {k: v[:60] for k, v in core.items()}, "possible": [{k: v[:60] for k, v in w.items()} for w in wants][:3]}))
    # ----- writes judged on the host
    if sandboxed:
        probes = []
        for dp, dn, fn in os.walk(proj):
            for f in fn:
                if f.startswith("probe-"):
                    probes.append(os.path.join(dp, f))
        for d in [outside, "/usr", "/var/tmp", os.environ.get("HOME", "/root"), "/dev/shm"]:
            try:
                probes += [os.path.join(d, f) for f in os.listdir(d) if f.startswith("probe-" + token)]
            except OSError:
                pass
        counters["write_probes_judged"] += 1
        for p in probes:
            # a probe inside the writer's own workspace is fine: probe-<recipe>-<kind>-dep lands in "$a" only if $a was writable
            mm = re.search(r"probe-(?:%s-)?([A-Za-z0-9]+)-(checkout|build|package)(-dep)?$" % token, p)
            own = None
            if mm:
                own_dirs = [os.path.join(proj, d[mm.group(2)]) for pth, d in dirs.items() if exp.get(pth, {}).get("recipe") == mm.group(1) and d[mm.group(2)]]
                own = any(os.path.dirname(p) == od for od in own_dirs)
            if own:
                continue
            mech = "sandboxed-step-wrote-outside-its-workspace"
            if p.startswith(("/dev/shm/", "/run/")):
                mech = "sandboxed-write-lands-on-host-sub-mount-of-read-only-bind"
            viol.append(violation(mech, {"mode": mode, "file": p.replace(proj, "<project>")}))
            try:
                os.unlink(p)
            except OSError:
                pass
        if recipes_digest(proj) != before_digest:
            viol.append(violation("sandboxed-step-modified-the-recipes", {"mode": mode}))


LEVEL_TEXT = ("Exploration: every generated step reports its environment, arguments, tool lookup and (sandboxed) its view of the project; a model of the "
              "documented environment rules written for this check decides; host-side judgement of write probes; "
              "ASan+UBSan build of the namespace-sandbox helper for all sandboxed runs.")
LEVEL_NOTE = "Bash only (no pwsh here); user namespaces required for the sandbox clause; Jenkins execution is out of reach."
TECHNIQUE = "self-reporting step scripts (NUL separated env/argument dumps, canary and write probes) checked against an independent environment model; clang ASan+UBSan on src/namespace-sandbox"
