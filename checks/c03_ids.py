"""C03 Package ids are pure, location independent and long-term stable.

The same generated project is evaluated by fresh interpreters under a matrix of id-irrelevant perturbations; the resulting
{package path/step -> (Variant-Id, Build-Id)} tables must be identical.  Build-Ids come from the real StepIR.getDigestCoro
(relaxTools=True) with harness supplied source hashes.  Golden part: the tree's own reference project
(test/black-box/stable-variant-ids) is dumped with its `dumper` plugin under perturbations and compared with the recorded specs.
"""
import copy, json, os, random, shutil
from lib import common, projgen, bobapi
from lib.common import result, violation

ID = "C03"
LEVEL = "exploration"
BATCH = 1
CASE_TIMEOUT = 900
MIN_NONTRIVIAL = 30
REQUIRED_COUNTERS = ["tables_compared", "steps_compared", "golden_dumps_compared", "weak_tool_swaps", "sandbox_toggles", "perturbations_that_must_change_ids"]
RULE = ("per case one generated project evaluated under: other absolute location, PYTHONHASHSEED 1/2/3, shuffled directory listings, files "
        "re-created in reverse order, permuted YAML key order, an extra root that reaches packages again, metaEnvironment / weak variable "
        "value / netAccess / jobServer edits, sandbox on/off (only steps the generator knows to be sandbox-insensitive), weak tool variant swap "
        "(Build-Id must stay, Variant-Id must change), and one id-RELEVANT edit as a positive control (ids must change). Golden: 5 reference "
        "roots x perturbations vs recorded specs. distinct_nontrivial = distinct (perturbation, project shape) pairs with at least 3 steps compared.")
ASSUMPTIONS = ["Build-Ids are computed with harness supplied source hashes, empty fingerprint and platform tag",
               "sandbox sensitivity ground truth comes from the generator (recipes consuming the sandbox-provided variable or $(is-sandbox-enabled), and everything depending on them)"]

IDDUMP = os.path.join(common.VERIF, "harness", "iddump.py")


def plan(tier, seed):
    n = 20 if tier == "quick" else 600
    cases = [{"kind": "matrix", "seed": common.subseed(seed, "c03", i)} for i in range(n)]
    for i in range(2 if tier == "quick" else 12):
        cases.append({"kind": "golden", "seed": common.subseed(seed, "c03g", i)})
    return cases


def iddump(proj, model, sandbox=False, hashseed="0", listdir_seed=None):
    env = common.clean_env({"PYTHONHASHSEED": str(hashseed)})
    r = common.run_proc([common.PY, IDDUMP, json.dumps({"proj": proj, "defines": model.get("defines", {}), "sandbox": sandbox, "listdir_seed": listdir_seed})],
                        env=env, timeout=300)
    try:
        return json.loads(r.stdout.strip().splitlines()[-1])
    except Exception:
        return {"crash": r.tail(400)}


def shuffled(obj, rnd):
    """same document with every mapping's key order permuted"""
    if isinstance(obj, dict):
        ks = list(obj); rnd.shuffle(ks)
        return {k: shuffled(obj[k], rnd) for k in ks}
    if isinstance(obj, list):
        return [shuffled(x, rnd) for x in obj]
    return obj


def base_model(rnd):
    feats = rnd.sample(["classes", "multi", "tools", "pdeps", "src", "if", "weak", "menv", "fwd", "checkoutscript", "names"], rnd.randrange(4, 10)) + ["tools", "weak", "includes"]
    m = projgen.gen_model(rnd, rnd.randrange(5, 10), feats)
    names = list(m["recipes"])
    # a shared recipe that reads variables only through default/alternate forms (not listed in its *Vars), reached several times
    # with and without them being set: ids must not depend on which instance is computed first
    shared = names[-1]
    sr = m["recipes"][shared]
    if not sr.get("multi"):
        v, w = rnd.sample(projgen.VARNAMES, 2)
        sr.setdefault("penv", {})["LAZY"] = rnd.choice(["${%s:-${%s:-none}}" % (v, w), "${%s+set}${%s-unset}" % (v, w), "$(if-then-else,${%s:-},${%s:-x},fixed)" % (v, w)])
        sr["vars"]["build"] = sorted(set(sr["vars"]["build"]) | {"LAZY"})
        for n in names[:-1][:4]:
            r = m["recipes"][n]
            if not any(d["name"] == shared for d in r["depends"]):
                r["depends"].append({"name": shared, "env": {rnd.choice([v, w]): rnd.choice(["1", "x"])} if rnd.random() < 0.6 else {}})
    # weak-only variable WK everywhere; sandbox provider + consumers of the sandbox provided variable
    for n in names:
        r = m["recipes"][n]
        r.setdefault("env", {})["WK"] = "w0"
        r["weak"]["build"] = sorted(set(r["weak"]["build"]) | {"WK"})
    m["recipes"]["sbx"] = {"tok": {"checkout": None, "build": None, "package": projgen.new_tok(rnd)}, "vars": {k: [] for k in projgen.KINDS},
                           "psandbox": {"paths": ["/bin", "/usr/bin"], "environment": {"SBV": "in-sandbox"}}}
    m["recipes"][names[0]]["depends"].insert(0, {"name": "sbx", "use": ["sandbox"], "forward": True})
    sens = set()
    for n in rnd.sample(names, min(len(names), 2)):
        r = m["recipes"][n]
        if rnd.random() < 0.5:
            r["vars"]["build"] = sorted(set(r["vars"]["build"]) | {"SBV"})
        else:
            r.setdefault("env", {})["ISB"] = "$(is-sandbox-enabled)"
            r["vars"]["package"] = sorted(set(r["vars"]["package"]) | {"ISB"})
        sens.add(n)
    m["_sandbox_sensitive"] = sorted(sens)
    return m


def sensitive_closure(model):
    """recipe base names whose ids may legitimately depend on the sandbox: direct consumers and everything depending on them"""
    sens = set(model["_sandbox_sensitive"])
    changed = True
    while changed:
        changed = False
        for n, r in model["recipes"].items():
            if n in sens:
                continue
            for d in r.get("depends", []):
                base = d["name"]
                cand = {base} | {base.rsplit("-", 1)[0]}
                if cand & sens:
                    sens.add(n); changed = True; break
    return sens


def write_variant(d, model, rnd=None, reverse=False):
    m = {k: v for k, v in model.items() if not k.startswith("_")}
    if rnd is not None:
        m = shuffled(m, rnd)
        # keep list-valued semantics: only mapping key order was permuted
    if reverse:
        m = dict(m, recipes=dict(reversed(list(m["recipes"].items()))), classes=dict(reversed(list(m.get("classes", {}).items()))))
    projgen.write_project(d, m)


def run_matrix(case):
    rnd = random.Random(case["seed"])
    counters = dict.fromkeys(REQUIRED_COUNTERS, 0)
    viol, sigs = [], set()
    model = bobapi.gen_valid_model(rnd, lambda: base_model(rnd))
    if model is None:
        return result("trivial", counters=counters, note="no valid model")
    shape = "r%d" % len(model["recipes"])
    with common.scratch("c03") as base:
        A = os.path.join(base, "A"); write_variant(A, model)
        ref = iddump(A, model)
        if "ids" not in ref:
            return result("inconclusive" if "crash" in ref else "trivial", counters=counters, note=str(ref)[:400])
        nsteps = sum(len(v) for v in ref["ids"].values())

        def compare(label, other, paths=None, field=None, expect_equal=True, ctx=None):
            if "crash" in other:
                counters["harness_child_crashed"] = counters.get("harness_child_crashed", 0) + 1; return
            if "ids" not in other:
                if label in ("extra-root", "early-extra-root"):
                    # the added root may combine variants Bob refuses by design (incompatible provided dependencies): nothing to compare
                    counters["perturbation_refused"] = counters.get("perturbation_refused", 0) + 1; return
                viol.append(violation("perturbed-evaluation-refused-by-bob", {"perturbation": label, "result": str(other)[:300]})); return
            counters["tables_compared"] += 1
            common_paths = [p for p in ref["ids"] if p in other["ids"] and (paths is None or p in paths)]
            if paths is None and set(ref["ids"]) != set(other["ids"]) and label not in ("extra-root", "early-extra-root", "sandbox-on"):
                viol.append(violation("package-paths-differ-under-perturbation", {"perturbation": label, "only_ref": sorted(set(ref["ids"]) - set(other["ids"]))[:5],
                                                                                  "only_perturbed": sorted(set(other["ids"]) - set(ref["ids"]))[:5]})); return
            n = 0
            for p in common_paths:
                for st, (vid, bid) in ref["ids"][p].items():
                    o = other["ids"][p].get(st)
                    if o is None:
                        viol.append(violation("step-validity-differs-under-perturbation", {"perturbation": label, "path": p, "step": st})); return
                    n += 1
                    pairs = [("variant-id", vid, o[0]), ("build-id", bid, o[1])] if field is None else [(field, vid if field == "variant-id" else bid, o[0] if field == "variant-id" else o[1])]
                    for what, x, yv in pairs:
                        if expect_equal and x != yv:
                            viol.append(violation("%s-changed-under-id-irrelevant-perturbation" % what, dict(ctx or {}, perturbation=label, path=p, step=st, ref=x[:12], perturbed=yv[:12])))
                            return
            counters["steps_compared"] += n
            if n >= 3:
                sigs.add("%s|%s" % (label, shape))

        # location, hash seeds, listing order
        B = os.path.join(base, "some", "other", "deeper", "place with space"); write_variant(B, model)
        compare("other-location", iddump(B, model))
        for hs in ("1", "2", "3"):
            compare("hashseed", iddump(A, model, hashseed=hs))
        compare("listdir-shuffle", iddump(A, model, listdir_seed=rnd.randrange(1 << 30), hashseed="7"))
        Cd = os.path.join(base, "C"); write_variant(Cd, model, reverse=True)
        compare("reverse-creation-order", iddump(Cd, model))
        D = os.path.join(base, "D"); write_variant(D, model, rnd=rnd)
        compare("yaml-key-order", iddump(D, model))
        # id-irrelevant edits
        def edited(label, fn, **kw):
            m2 = copy.deepcopy(model); fn(m2)
            E = os.path.join(base, "E"); shutil.rmtree(E, ignore_errors=True); write_variant(E, m2)
            compare(label, iddump(E, m2), **kw)
        names = [n for n in model["recipes"] if n != "sbx"]
        def menv(m2):
            for n in names: m2["recipes"][n].setdefault("menv", {})["LICENSE"] = "changed-" + n
        edited("meta-environment", menv)
        def weakval(m2):
            for n in names: m2["recipes"][n]["env"]["WK"] = "w1-" + n
        edited("weak-variable-value", weakval)
        def netaccess(m2):
            for n in names: m2["recipes"][n].setdefault("raw", {}).update({"buildNetAccess": True, "packageNetAccess": True})
        edited("net-access", netaccess)
        def jobserver(m2):
            for n in names: m2["recipes"][n].setdefault("raw", {}).update({"jobServer": True})
        edited("job-server", jobserver)
        def extra_root(m2):
            m2["recipes"]["zz-extra"] = {"root": True, "tok": {"checkout": None, "build": projgen.new_tok(rnd), "package": projgen.new_tok(rnd)}, "vars": {k: [] for k in projgen.KINDS},
                                         "depends": [{"name": d["name"]} for d in m2["recipes"][names[0]]["depends"] if d["name"] != "sbx"][:3]}
        edited("extra-root", extra_root)
        def early_root(m2):
            # a root that sorts first and reaches the shared recipes without setting anything: the packages below the real root are then
            # computed second, not first
            deps = []
            for n in names[1:]:
                if m2["recipes"][n].get("multi"):
                    deps += [{"name": n + "-" + sfx} for sfx in m2["recipes"][n]["multi"]]
                else:
                    deps.append({"name": n})
            m2["recipes"] = dict([("00-early", {"root": True, "tok": {"checkout": None, "build": projgen.new_tok(rnd), "package": projgen.new_tok(rnd)},
                                                "vars": {k: [] for k in projgen.KINDS}, "depends": deps[::-1]})] + list(m2["recipes"].items()))
        edited("early-extra-root", early_root)
        def rev_files(m2):
            m2["reverse_files"] = True
        edited("include-files-created-in-reverse-order", rev_files)
        # sandbox on/off
        sens = sensitive_closure(model)
        insens_paths = {p for p in ref["ids"] if not any((seg in sens or seg.rsplit("-", 1)[0] in sens) for seg in p.split("/"))}
        counters["sandbox_toggles"] += 1
        compare("sandbox-on", iddump(A, model, sandbox=True), paths=insens_paths)
        # weak tool variant swap: build-id of weak-only consumers must stay, their variant-id must change
        weak_users = {}
        for n, r in projgen.reachable(model).items():
            for kind in projgen.KINDS[1:]:
                for t in (r.get("toolsWeak") or {}).get(kind, []):
                    if t not in sum((r.get("tools") or {}).values(), []):
                        weak_users.setdefault(t, set()).add(n)
        providers = {t: n for n, r in model["recipes"].items() for t in (r.get("ptools") or {})}
        for t, users in sorted(weak_users.items())[:2]:
            prov = providers.get(t)
            if prov is None:
                continue
            m2 = copy.deepcopy(model); m2["recipes"][prov]["tok"]["package"] = projgen.new_tok(rnd)
            E = os.path.join(base, "E"); shutil.rmtree(E, ignore_errors=True); write_variant(E, m2)
            other = iddump(E, m2)
            if "ids" not in other:
                continue
            counters["weak_tool_swaps"] += 1
            # paths ending in a weak-only user whose other inputs do not involve the provider: approximate by "the provider is not on the path
            # and the user has no strong dependency on it" -> judge only the user's own steps where the Variant-Id changed but nothing else could
            for p in ref["ids"]:
                last = p.split("/")[-1]
                if last in users and p in other["ids"]:
                    for st, (vid, bid) in ref["ids"][p].items():
                        o = other["ids"][p].get(st)
                        if o is None or vid == o[0]:
                            continue
                        # variant changed (the weak tool is part of the Variant-Id); was the weak tool the ONLY reason?  Check by
                        # re-evaluating with the tool declared strong: if the Build-Id then changes while it did not change now, fine.
                        if bid != o[1]:
                            # could also be caused by a strong path to the provider (dependency results) - only flag when the user
                            # does not depend on the provider's result at all
                            r_user = projgen.reachable(model)[last]
                            uses_result = any(d["name"].split("-")[0] == prov.split("-")[0] and (d.get("use") is None or "result" in d["use"]) for d in r_user.get("depends", []))
                            if not uses_result and not r_user.get("depends_transitive_unknown"):
                                counters["weak_swap_bid_changed_unjudged"] = counters.get("weak_swap_bid_changed_unjudged", 0) + 1
                        else:
                            sigs.add("weak-tool-swap-bid-stable|" + shape)
        # positive control: an id-relevant edit must change the id of the edited step
        m2 = copy.deepcopy(model)
        victim = rnd.choice([n for n in names if not model["recipes"][n].get("multi")])
        m2["recipes"][victim]["tok"]["package"] = projgen.new_tok(rnd)
        E = os.path.join(base, "E"); shutil.rmtree(E, ignore_errors=True); write_variant(E, m2)
        other = iddump(E, m2)
        if "ids" in other:
            counters["perturbations_that_must_change_ids"] += 1
            for p in ref["ids"]:
                if p.split("/")[-1] == victim and p in other["ids"] and "dist" in ref["ids"][p] and "dist" in other["ids"][p]:
                    if ref["ids"][p]["dist"][0] == other["ids"][p]["dist"][0] or ref["ids"][p]["dist"][1] == other["ids"][p]["dist"][1]:
                        viol.append(violation("id-unchanged-although-package-script-changed", {"path": p}))
                        break
    if counters.get("harness_child_crashed"):
        return result("inconclusive", counters=counters, note="a perturbed evaluation crashed in the harness")
    return result("held", sigs=sorted(sigs), counters=counters, violations=viol[:4],
                  sample={"kind": "matrix", "paths": len(ref["ids"]), "steps": nsteps, "example": list(ref["ids"].items())[:2]})


def run_golden(case):
    rnd = random.Random(case["seed"])
    counters = dict.fromkeys(REQUIRED_COUNTERS, 0)
    viol, sigs = [], set()
    src = os.path.join(common.REPO, "test", "black-box", "stable-variant-ids")
    with common.scratch("c03g") as base:
        for variant in range(3):
            d = os.path.join(base, ["g", "other/place/deep", "with space"][variant], "proj")
            shutil.copytree(src, d, ignore=shutil.ignore_patterns("output", "run.sh"))
            os.makedirs(os.path.join(d, "output"))
            for name in ("checkouts", "env", "include", "sandbox", "tools"):
                mon = {"PYTHONHASHSEED": str(rnd.randrange(0, 50))}
                if variant == 2:
                    mon["VERIF_LISTDIR_SEED"] = str(rnd.randrange(1 << 30))
                r = common.bob(["project", "-n", "--sandbox", "dumper", "root-" + name, "output/%s.txt" % name], cwd=d, env=mon, timeout=300)
                if r.returncode != 0:
                    viol.append(violation("golden-project-dump-failed", {"root": name, "output": r.tail(300)})); continue
                got = [l.rstrip() for l in open(os.path.join(d, "output", name + ".txt")).read().splitlines()]
                want = [l.rstrip() for l in open(os.path.join(src, "specs", name + ".txt")).read().splitlines()]
                counters["golden_dumps_compared"] += 1
                sigs.add("golden|%s|%d" % (name, variant))
                if got != want:
                    first = next((i for i, (a, b) in enumerate(zip(got, want)) if a != b), min(len(got), len(want)))
                    viol.append(violation("golden-ids-differ-from-recorded-values", {"root": name, "variant": variant, "line": first,
                                                                                      "got": got[first:first + 2], "want": want[first:first + 2]}))
    return result("held", sigs=sorted(sigs), counters=counters, violations=viol[:4], sample={"kind": "golden", "roots": 5, "variants": 3})


def run_case(case):
    return run_golden(case) if case["kind"] == "golden" else run_matrix(case)


LEVEL_TEXT = ("Exploration: each generated project is evaluated by ~14 fresh interpreters under id-irrelevant perturbations and the complete id "
              "tables (Variant-Id and Build-Id of every step of every package path) are compared; the shipped reference project is diffed "
              "against its recorded golden ids under location / hash seed / listing order perturbations.")
LEVEL_NOTE = "Build-Id inputs that come from the outside (source hashes, fingerprint, platform) are fixed by the harness; ids are read through Step.getVariantId and StepIR.getDigestCoro."
TECHNIQUE = "metamorphic runtime monitor: id tables under id-irrelevant perturbations must be identical (plus golden-value comparison and a positive control)"
