"""C19 Archive retention keeps exactly what is selected or referenced.

Archives are synthesised by the harness (own tar/gzip/JSON writer, documented audit format): artifact DAGs with random
meta / build / metaEnv fields, missing fields, shared references, references through non-dist records, references to
artifacts that are absent.  A reference evaluator written from doc/manpages/bob-archive.rst decides which artifacts an
expression list selects (LIMIT / ORDER BY, missing sort field last) and the reference closure.  The real
`bob archive -l find|clean [--dry-run]` implementation runs on copies of the archive with (i) no index, (ii) a warm index,
(iii) an index made stale by adding / removing / replacing artifacts after the last scan.
"""
import gzip, hashlib, io, json, os, random, shutil, sys, tarfile

if __name__ == "__main__":
    sys.path.insert(0, os.path.dirname(os.path.dirname(os.path.abspath(__file__))))
from lib import common
from lib.common import result, violation

ID = "C19"
LEVEL = "exploration"
BATCH = 2
CASE_TIMEOUT = 600
MIN_NONTRIVIAL = 30
REQUIRED_COUNTERS = ["find_checked", "clean_checked", "dryrun_checked", "stale_index_runs", "limit_expressions", "closure_nontrivial", "history_steps"]
RULE = ("per case one generated archive (6-14 artifacts, reference DAG incl. dangling and indirect references, random/missing fields) "
        "and 4 expression lists from the documented grammar; each list is run as find, clean --dry-run and clean on the archive with no, "
        "warm and stale index; then a 5-8 step history in one directory with a persistent index (artifacts - also previously dangling "
        "references - added, removed, replaced between scan / find / clean commands). distinct_nontrivial = distinct (index state, expression shape, outcome class) where the selected set is "
        "neither empty nor everything, plus distinct archive shapes.")
ASSUMPTIONS = ["reference semantics = doc/manpages/bob-archive.rst (lib code in this file); ties at a LIMIT boundary may be broken either way",
               "the command implementation is entered at bob.cmds.archive.doArchive (what `bob archive` dispatches to), in-process with cwd = archive",
               "comparisons other than ==/!= are only generated on fields every artifact has (the result of ordering against an undefined field is documented as an error)"]

PACKAGES = ["app", "lib", "root/app", "tools/gcc", "base"]
RECIPES = ["app", "lib", "gcc", "base"]
NODES = ["n1", "n2", "builder"]
DATES = ["2017-01-0%d" % i for i in range(1, 10)] + ["2019-12-02T13:19:34.193136+00:00", "2019-12-02T13:19:35", "2020"]
METAVARS = ["LICENSE", "VERSION"]
METAVALS = ["GPL", "MIT", "1.0", "2.0", ""]


def plan(tier, seed):
    n = 64 if tier == "quick" else 3000
    return [{"seed": common.subseed(seed, "c19", i), "lists": 3 if tier == "quick" else 5, "history": 5 if tier == "quick" else 8} for i in range(n)]


# ------------------------------------------------------------------ archive synthesis (harness-owned writer)

def hexid(*parts):
    return hashlib.sha1(repr(parts).encode()).hexdigest()


def make_record(rnd, kind, name, deps, tools=None, uniq=""):
    rec = {
        "variant-id": hexid("v", name, uniq), "build-id": hexid("b", name, uniq), "result-hash": hexid("r", name, uniq),
        "meta": {"step": kind, "bob": "0.25", "language": "bash"},
        "build": {"sysname": "Linux", "release": "1", "version": "1", "machine": "x86_64"},
        "env": "", "scms": [], "dependencies": {},
    }
    if deps:
        rec["dependencies"]["args"] = list(deps)
    if tools:
        rec["dependencies"]["tools"] = dict(tools)
    return rec


def finish_record(rec):
    rec["artifact-id"] = hexid("a", json.dumps(rec, sort_keys=True))
    return rec


class Archive:
    """In-memory description; `files` maps build-id hex -> audit dict of the artifact stored under that name."""
    def __init__(self):
        self.files = {}

    def write(self, root):
        for bid, audit in self.files.items():
            write_artifact(root, bid, audit)


def art_rel(bid):
    return os.path.join(bid[0:2], bid[2:4], bid[4:] + "-1.tgz")


def write_artifact(root, bid, audit):
    p = os.path.join(root, art_rel(bid))
    os.makedirs(os.path.dirname(p), exist_ok=True)
    raw = io.BytesIO()
    with tarfile.open(fileobj=raw, mode="w", format=tarfile.PAX_FORMAT, pax_headers={"bob-archive-vsn": "1"}) as t:
        a = gzip.compress(json.dumps(audit).encode())
        ti = tarfile.TarInfo("meta/audit.json.gz"); ti.size = len(a)
        t.addfile(ti, io.BytesIO(a))
        d = tarfile.TarInfo("content"); d.type = tarfile.DIRTYPE; d.mode = 0o755
        t.addfile(d)
        c = bid.encode()
        ti = tarfile.TarInfo("content/file"); ti.size = len(c)
        t.addfile(ti, io.BytesIO(c))
    tmp = p + ".tmp"
    with open(tmp, "wb") as f:
        f.write(gzip.compress(raw.getvalue()))
    os.replace(tmp, p)


def gen_artifact(rnd, idx, existing, uniq=""):
    """existing: list of (dist record, references list) of artifacts this one may depend on."""
    name = "p%d" % idx
    refs = {}
    deps = []
    for d, drefs in (rnd.sample(existing, min(len(existing), rnd.randrange(0, 3))) if existing else []):
        deps.append(d["artifact-id"])
        refs[d["artifact-id"]] = d
        for r in drefs:
            refs[r["artifact-id"]] = r
    tools = {}
    if existing and rnd.random() < 0.3:
        d, drefs = rnd.choice(existing)
        tools["tool"] = d["artifact-id"]
        refs[d["artifact-id"]] = d
        for r in drefs:
            refs[r["artifact-id"]] = r
    src = finish_record(make_record(rnd, "src", name, [], uniq=uniq))
    build = finish_record(make_record(rnd, "build", name, [src["artifact-id"]] + deps, tools, uniq=uniq))
    refs[src["artifact-id"]] = src
    refs[build["artifact-id"]] = build
    dist = make_record(rnd, "dist", name, [build["artifact-id"]], uniq=uniq)
    # direct dist->dist reference as well, sometimes
    if deps and rnd.random() < 0.3:
        dist["dependencies"]["args"].append(deps[0])
    dist["meta"]["package"] = rnd.choice(PACKAGES)
    dist["meta"]["recipe"] = rnd.choice(RECIPES)
    if rnd.random() < 0.3:
        dist["meta"]["jenkins-node"] = rnd.choice(NODES)
    dist["build"]["nodename"] = rnd.choice(NODES)
    dist["build"]["date"] = rnd.choice(DATES) if rnd.random() < 0.25 else "2018-%02d-%02dT%02d:00:00" % (rnd.randrange(1, 13), rnd.randrange(1, 28), idx % 24)
    if rnd.random() < 0.6:
        dist["metaEnv"] = {v: rnd.choice(METAVALS) for v in METAVARS if rnd.random() < 0.6}
    finish_record(dist)
    return dist, list(refs.values())


def gen_archive(rnd, n):
    arch = Archive()
    pool = []
    for i in range(n):
        dist, refs = gen_artifact(rnd, i, pool)
        pool.append((dist, refs))
        if rnd.random() < 0.12:
            continue            # referenced by others, but absent from the archive
        arch.files[dist["build-id"]] = {"artifact": dist, "references": refs}
    return arch, pool


# ------------------------------------------------------------------ reference semantics (from bob-archive.rst)

UNDEF = object()


def field(data, path):
    cur = data
    for p in path.split("."):
        if not isinstance(cur, dict) or p not in cur:
            return UNDEF
        cur = cur[p]
    return cur


def vars_of(audit):
    a = audit["artifact"]
    return {"meta": a["meta"], "build": a["build"], "metaEnv": a.get("metaEnv", {})}


def ev(node, data):
    k = node[0]
    if k == "lit":
        return node[1]
    if k == "field":
        return field(data, node[1])
    if k == "not":
        return not ev(node[1], data)
    if k == "and":
        return ev(node[1], data) and ev(node[2], data)
    if k == "or":
        return ev(node[1], data) or ev(node[2], data)
    l, r = ev(node[2], data), ev(node[3], data)
    op = node[1]
    if op == "==": return (l is r) if (l is UNDEF or r is UNDEF) else l == r
    if op == "!=": return (l is not r) if (l is UNDEF or r is UNDEF) else l != r
    assert l is not UNDEF and r is not UNDEF
    return {"<": l < r, "<=": l <= r, ">": l > r, ">=": l >= r}[op]


def select(expr, archive_files):
    """returns (must, may): artifacts certainly selected / selected under some tie-break."""
    pred, limit, order_field, asc = expr["pred"], expr["limit"], expr["field"], expr["asc"]
    matched = [b for b, a in archive_files.items() if ev(pred, vars_of(a))]
    if limit is None:
        return set(matched), set()
    keyed = [(b, field(vars_of(archive_files[b]), order_field)) for b in matched]
    have = [(b, k) for b, k in keyed if k is not UNDEF]
    miss = [b for b, k in keyed if k is UNDEF]
    have.sort(key=lambda x: x[1], reverse=not asc)
    ranked = [(b, (0, k)) for b, k in have] + [(b, (1, "")) for b in miss]
    if len(ranked) <= limit:
        return set(b for b, _ in ranked), set()
    boundary = ranked[limit - 1][1]
    nxt = ranked[limit][1]
    if boundary != nxt:
        return set(b for b, _ in ranked[:limit]), set()
    must = set(b for b, k in ranked[:limit] if k != boundary)
    may = set(b for b, k in ranked if k == boundary)
    return must, may


def referenced(audit):
    """build-ids of the dist records reachable from the artifact through non-dist records (documented closure step)."""
    recs = {r["artifact-id"]: r for r in audit["references"]}
    out = set()
    todo = list(deps_of(audit["artifact"]))
    seen = set()
    while todo:
        a = todo.pop()
        if a in seen:
            continue
        seen.add(a)
        r = recs[a]
        if r["meta"]["step"] == "dist":
            out.add(r["build-id"])
        else:
            todo.extend(deps_of(r))
    return out


def deps_of(rec):
    d = rec["dependencies"]
    return list(d.get("args", [])) + list(d.get("tools", {}).values()) + ([d["sandbox"]] if "sandbox" in d else [])


def closure(selected, archive_files):
    keep = set(selected)
    todo = list(selected)
    while todo:
        b = todo.pop()
        if b not in archive_files:
            continue
        for r in referenced(archive_files[b]):
            if r not in keep:
                keep.add(r); todo.append(r)
    return keep & set(archive_files)


# ------------------------------------------------------------------ expression generator

def gen_pred(rnd, depth, archive_files):
    k = rnd.random()
    if depth <= 0 or k < 0.45:
        return gen_cmp(rnd, archive_files)
    if k < 0.6:
        return ("not", gen_pred(rnd, depth - 1, archive_files))
    return (rnd.choice(["and", "or"]), gen_pred(rnd, depth - 1, archive_files), gen_pred(rnd, depth - 1, archive_files))


def gen_cmp(rnd, archive_files):
    always = ["meta.package", "meta.recipe", "build.date", "build.nodename", "meta.step"]
    sometimes = ["meta.jenkins-node", "metaEnv.LICENSE", "metaEnv.VERSION", "meta.nonexistent", "nosuch.thing", "build.date.sub"]
    op = rnd.choice(["==", "==", "!=", "<", "<=", ">", ">="])
    f = rnd.choice(always + (sometimes if op in ("==", "!=") else []))
    pool = {"meta.package": PACKAGES, "meta.recipe": RECIPES, "build.nodename": NODES, "meta.step": ["dist", "build"],
            "meta.jenkins-node": NODES, "metaEnv.LICENSE": METAVALS, "metaEnv.VERSION": METAVALS}.get(f)
    if f == "build.date":
        vals = sorted(vars_of(a)["build"]["date"] for a in archive_files.values()) or ["2018"]
        v = rnd.choice(vals + ["2018-06", "2018-06-15T", "2017", "2019-12-02T13:19:35"])
    else:
        v = rnd.choice(pool or ["x"])
    if rnd.random() < 0.1:
        v = v + rnd.choice(['"', "\\", " ", "\t"])
    left, right = ("field", f), ("lit", v)
    if rnd.random() < 0.15 and op in ("==", "!="):
        right = ("field", rnd.choice(always + sometimes))
    if rnd.random() < 0.3:
        left, right = right, left
        op = {"<": ">", ">": "<", "<=": ">=", ">=": "<="}.get(op, op)
    return ("cmp", op, left, right)


RANK = {"cmp": 1, "not": 0, "and": 2, "or": 3}


def render(node, rnd, parent=None):
    k = node[0]
    if k == "lit":
        return '"' + node[1].replace("\\", "\\\\").replace('"', '\\"') + '"'
    if k == "field":
        return node[1]
    if k == "cmp":
        sp = rnd.choice([" ", " ", ""])
        s = render(node[2], rnd) + sp + node[1] + sp + render(node[3], rnd)
    elif k == "not":
        s = "!" + rnd.choice(["", " "]) + "(" + render(node[1], rnd) + ")"
    else:
        op = " && " if k == "and" else " || "
        s = render(node[1], rnd, k) + op + render(node[2], rnd, k)
    need = parent is not None and (RANK[k] > RANK[parent] or (k == parent == "cmp"))
    # `a && b || c`: and binds tighter; a right-nested same operator is semantically associative, no parens needed
    if need or (parent is not None and rnd.random() < 0.15):
        s = "(" + s + ")"
    return s


def gen_expr(rnd, archive_files):
    e = {"pred": gen_pred(rnd, rnd.randrange(0, 3), archive_files), "limit": None, "field": "build.date", "asc": False}
    text = render(e["pred"], rnd)
    if rnd.random() < 0.5:
        e["limit"] = rnd.randrange(1, 4)
        kw = lambda w: rnd.choice([w, w.lower(), w.capitalize()])
        text += " %s %d" % (kw("LIMIT"), e["limit"])
        if rnd.random() < 0.6:
            e["field"] = rnd.choice(["build.date", "build.date", "meta.package", "metaEnv.VERSION", "meta.jenkins-node", "build.nodename"])
            text += " %s %s %s" % (kw("ORDER"), kw("BY"), e["field"])
            r = rnd.random()
            if r < 0.4:
                e["asc"] = True; text += " " + kw("ASC")
            elif r < 0.7:
                text += " " + kw("DESC")
    e["text"] = text
    return e


# ------------------------------------------------------------------ running the real command

def run_archive_cmd(cwd, argv):
    """bob.cmds.archive.doArchive (what `bob archive` dispatches to) with cwd = archive; returns (rc, stdout, stderr).

    In-process: the command keeps no state between calls (the index connection is closed on exit) and a fork per
    command costs seconds on a loaded machine."""
    import contextlib
    from bob.cmds.archive import doArchive
    from bob.errors import BobError
    out, err = io.StringIO(), io.StringIO()
    old = os.getcwd()
    os.chdir(cwd)
    try:
        with contextlib.redirect_stdout(out), contextlib.redirect_stderr(err):
            try:
                doArchive(argv, None)
                rc = 0
            except BobError as e:
                print("BobError:", e, file=sys.stderr); rc = 1
            except SystemExit as e:
                rc = e.code if isinstance(e.code, int) else 2
            except Exception as e:
                print("INTERNAL %s: %s" % (type(e).__name__, e), file=sys.stderr); rc = 3
    finally:
        os.chdir(old)
    return rc, out.getvalue(), err.getvalue()


def listing(root):
    out = set()
    for p, ds, fs in os.walk(root):
        for f in fs:
            if f.endswith("-1.tgz"):
                rel = os.path.relpath(os.path.join(p, f), root)
                out.add(rel.replace("/", "")[:-6])
    return out


def parse_paths(text):
    out = set()
    for l in text.splitlines():
        l = l.strip()
        if l.endswith("-1.tgz") and not l.startswith(("scan", "rm")):
            out.add(l.replace("/", "")[:-6])
        elif l.startswith("rm ") and l.endswith("-1.tgz"):
            out.add(l[3:].strip().replace("/", "")[:-6])
    return out


def run_case(case):
    common.repo_path_setup()
    import bob.cmds.archive      # import before forking
    rnd = random.Random(case["seed"])
    counters = dict.fromkeys(REQUIRED_COUNTERS, 0)
    viol = []
    sigs = set()
    samples = []
    with common.scratch("c19", root="/dev/shm/bobverif" if os.path.isdir("/dev/shm") else None) as base:
        arch, pool = gen_archive(rnd, rnd.randrange(6, 15))
        master = os.path.join(base, "master"); os.makedirs(master)
        arch.write(master)
        # the archive as it looked at the time of the last scan (for the stale index state)
        old = Archive(); old.files = dict(arch.files)
        mutations = []
        for _ in range(rnd.randrange(1, 4)):
            m = rnd.choice(["remove", "add", "replace"])
            if m == "remove" and len(old.files) > 2:
                b = rnd.choice(sorted(old.files)); del old.files[b]; mutations.append(("added-since-scan", b[:8]))
            elif m == "add":
                dist, refs = gen_artifact(rnd, 100 + len(mutations), pool, uniq="old")
                old.files[dist["build-id"]] = {"artifact": dist, "references": refs}; mutations.append(("removed-since-scan", dist["build-id"][:8]))
            elif m == "replace" and arch.files:
                b = rnd.choice(sorted(arch.files))
                if b in old.files:
                    dist, refs = gen_artifact(rnd, 200 + len(mutations), pool, uniq="older")
                    dist = dict(dist); dist["build-id"] = b
                    old.files[b] = {"artifact": finish_record({k: v for k, v in dist.items() if k != "artifact-id"}), "references": refs}
                    mutations.append(("replaced-since-scan", b[:8]))
        sigs.add("archive|n=%d|absent=%d|muts=%s" % (len(arch.files), len(pool) - len(arch.files), ",".join(sorted(set(m[0] for m in mutations)))))

        def prepare(state, d):
            shutil.rmtree(d, ignore_errors=True)
            if state == "none":
                shutil.copytree(master, d)
            elif state == "warm":
                shutil.copytree(master, d)
                rc, out, err = run_archive_cmd(d, ["-l", "scan"])
                assert rc == 0, err
            else:
                os.makedirs(d)
                old.write(d)
                rc, out, err = run_archive_cmd(d, ["-l", "scan"])
                assert rc == 0, err
                # bring the directory to the current content without touching the index
                for b in set(old.files) - set(arch.files):
                    os.unlink(os.path.join(d, art_rel(b)))
                for b, a in arch.files.items():
                    if b not in old.files or old.files[b] != a:
                        write_artifact(d, b, a)
            return d

        def judge(d, files, exprs, ctx, state, do_clean=True):
            """Run find / dry-run / clean in directory d whose content is `files`; returns the set left (or None)."""
            all_ids = set(files)
            texts = [e["text"] for e in exprs]
            must, may = set(), set()
            for e in exprs:
                m1, m2 = select(e, files)
                must |= m1; may |= m2
                if e["limit"] is not None:
                    counters["limit_expressions"] += 1
            may -= must
            shape = "+".join(("L" if e["limit"] else "") + ("A" if e["asc"] else "") + e["pred"][0] for e in exprs)
            ctx = dict(ctx, index=state, expressions=texts, archive=sorted(b[:8] for b in all_ids))
            rc, out, err = run_archive_cmd(d, ["-l", "find"] + texts)
            if rc != 0:
                viol.append(violation("find-failed" if "INTERNAL" not in err else "find-internal-exception", dict(ctx, rc=rc, err=err[-300:])))
                return None
            found = parse_paths(out)
            counters["find_checked"] += 1
            if not (must <= found <= (must | may)):
                viol.append(violation("find-lists-wrong-set", dict(ctx, expected_must=sorted(b[:8] for b in must), tie_candidates=sorted(b[:8] for b in may),
                                                                    got=sorted(b[:8] for b in found))))
                return None
            if listing(d) != all_ids:
                viol.append(violation("find-modified-archive", ctx))
            expect_keep = closure(found, files)
            if 0 < len(expect_keep) < len(all_ids):
                sigs.add("%s|%s|keep%d" % (state, shape, min(3, len(expect_keep))))
            if expect_keep != found:
                counters["closure_nontrivial"] += 1
            if len(samples) < 2:
                samples.append({"index": state, "expressions": texts, "selected": sorted(b[:8] for b in found), "kept_with_closure": len(expect_keep), "artifacts": len(all_ids)})
            rc, out, err = run_archive_cmd(d, ["-l", "clean", "--dry-run"] + texts)
            counters["dryrun_checked"] += 1
            if rc != 0:
                viol.append(violation("dry-run-failed", dict(ctx, rc=rc, err=err[-300:]))); return None
            dry = parse_paths(out)
            if listing(d) != all_ids:
                viol.append(violation("dry-run-deleted", dict(ctx, missing=sorted(b[:8] for b in all_ids - listing(d))))); return None
            if not do_clean:
                if not may and dry != (all_ids - expect_keep):
                    viol.append(violation("dry-run-output-differs-from-real-clean", dict(ctx, dry=sorted(b[:8] for b in dry), expected=sorted(b[:8] for b in all_ids - expect_keep))))
                return all_ids
            rc, out, err = run_archive_cmd(d, ["-l", "clean", "-v"] + texts)
            counters["clean_checked"] += 1
            if rc != 0:
                viol.append(violation("clean-failed", dict(ctx, rc=rc, err=err[-300:]))); return None
            left = listing(d)
            if may:
                ok = closure(must, files) <= left <= closure(must | may, files)
            else:
                ok = left == expect_keep
            if not ok:
                viol.append(violation("clean-kept-wrong-set", dict(ctx, selected=sorted(b[:8] for b in found), expected_left=sorted(b[:8] for b in expect_keep),
                                                                    left=sorted(b[:8] for b in left),
                                                                    lost=sorted(b[:8] for b in expect_keep - left), surplus=sorted(b[:8] for b in left - expect_keep))))
                return None
            if not may and dry != (all_ids - expect_keep):
                viol.append(violation("dry-run-output-differs-from-real-clean", dict(ctx, dry=sorted(b[:8] for b in dry), deleted=sorted(b[:8] for b in all_ids - left))))
            # second clean with the now warm index must be a no-op
            rc, out, err = run_archive_cmd(d, ["-l", "clean"] + texts)
            if rc == 0 and not may and listing(d) != left:
                viol.append(violation("repeated-clean-deleted-more", dict(ctx, lost=sorted(b[:8] for b in left - listing(d)))))
                return None
            return listing(d)

        # ---- phase 1: one expression list against the same content under three index states
        for li in range(case["lists"]):
            exprs = [gen_expr(rnd, arch.files) for _ in range(rnd.choice([1, 1, 2, 3]))]
            for state in ("none", "warm", "stale"):
                d = prepare(state, os.path.join(base, "w"))
                if state == "stale":
                    counters["stale_index_runs"] += 1
                judge(d, arch.files, exprs, {"mutations_since_scan": mutations if state == "stale" else []}, state)

        # ---- phase 2: a history in ONE directory with a persistent index: artifacts come and go between commands
        hist = os.path.join(base, "hist"); os.makedirs(hist)
        model = dict(arch.files)
        arch.write(hist)
        steps = []
        for step in range(case.get("history", 5)):
            absent = [(d_, r_) for d_, r_ in pool if d_["build-id"] not in model]
            for _ in range(rnd.randrange(0, 3)):
                op = rnd.choice(["add-absent", "add-absent", "add-new", "remove", "replace"])
                if op == "add-absent" and absent:
                    d_, r_ = absent.pop(rnd.randrange(len(absent)))
                    model[d_["build-id"]] = {"artifact": d_, "references": r_}
                    write_artifact(hist, d_["build-id"], model[d_["build-id"]]); steps.append((op, d_["build-id"][:8]))
                elif op == "add-new":
                    d_, r_ = gen_artifact(rnd, 300 + step * 10 + len(steps), pool, uniq="h%d" % case["seed"])
                    pool.append((d_, r_))
                    model[d_["build-id"]] = {"artifact": d_, "references": r_}
                    write_artifact(hist, d_["build-id"], model[d_["build-id"]]); steps.append((op, d_["build-id"][:8]))
                elif op == "remove" and len(model) > 2:
                    b = rnd.choice(sorted(model)); del model[b]
                    os.unlink(os.path.join(hist, art_rel(b))); steps.append((op, b[:8]))
                elif op == "replace" and model:
                    b = rnd.choice(sorted(model))
                    d_, r_ = gen_artifact(rnd, 400 + step * 10 + len(steps), pool, uniq="r%d" % case["seed"])
                    d_ = {k: v for k, v in d_.items() if k != "artifact-id"}; d_["build-id"] = b
                    model[b] = {"artifact": finish_record(d_), "references": r_}
                    write_artifact(hist, b, model[b]); steps.append((op, b[:8]))
            if not model:
                break
            exprs = [gen_expr(rnd, model) for _ in range(rnd.choice([1, 1, 2]))]
            action = rnd.choice(["clean", "clean", "dry", "scan"])
            counters["history_steps"] = counters.get("history_steps", 0) + 1
            if action == "scan":
                rc, out, err = run_archive_cmd(hist, ["-l", "scan"])
                if rc != 0:
                    viol.append(violation("scan-failed", {"history": steps[-6:], "err": err[-300:]}))
                steps.append(("scan",)); continue
            left = judge(hist, model, exprs, {"history": steps[-8:]}, "history", do_clean=(action == "clean"))
            steps.append((action, [e["text"] for e in exprs]))
            if left is None:
                break
            model = {b: a for b, a in model.items() if b in left}
    # dedupe
    seen = {}
    for v in viol:
        seen.setdefault(v["mechanism"], []).append(v)
    viol = [x for vs in seen.values() for x in vs[:2]]
    return result("held", sigs=sorted(sigs), counters=counters, violations=viol[:8], sample=samples)


LEVEL_TEXT = ("Exploration: generated archives x generated retention expression lists x three index states, every combination judged "
              "against an independent evaluator of the documented retention language and reference closure (set equality on the files "
              "left in the archive, on find output and on dry-run output).")
LEVEL_NOTE = "Trusts the harness' reading of bob-archive.rst and audit-trail.rst (archive writer and evaluator in this file); only the file backend with -l."
TECHNIQUE = "reference-model runtime monitor (retention language evaluator + closure) with differential index states (none / warm / stale)"
