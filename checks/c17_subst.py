"""C17 String substitution and conditions follow the documented language.

Monitors (all on the real bob.stringparser.Env / IfExpression, prepared as RecipeSet prepares them):
 (a) generated expression trees with their documented value (lib/refmodels/subst.py)
 (b) quoting round trip of arbitrary text
 (c) boolean trees: infix !expr == function-call form == generator's truth value
 (d) robustness: arbitrary strings may only raise ParseError
"""
import random, signal
from lib import common
from lib.common import result, violation
from lib.refmodels import subst as ref

ID = "C17"
LEVEL = "exploration"
BATCH = 4
CASE_TIMEOUT = 300
MIN_NONTRIVIAL = 40
REQUIRED_COUNTERS = ["value_checked", "error_expected_checked", "roundtrip_checked", "bool_infix_checked", "bool_callform_checked", "fuzz_inputs"]
RULE = ("expression trees generated from the documented grammar together with their value (variable forms -,:-,+,:+, indirect names, "
        "quoting, escapes, all built-in functions, poisoned untaken branches, expected errors), quoting round trips, boolean trees "
        "rendered as infix and as call form, and random/mutated raw strings. distinct_nontrivial = number of distinct grammar features "
        "x outcome classes exercised (feature tags recorded by the generator), not the number of strings.")
ASSUMPTIONS = ["reference semantics = doc/manual/configuration.rst + doc/manpages/bobpaths.rst as implemented in lib/refmodels/subst.py",
               "regular expressions follow Python's re module (generated patterns are from a small safe subset)",
               "errors inside function arguments are not generated in untaken positions of if-then-else/and/or (documentation does not define laziness there)"]


def plan(tier, seed):
    n = 48 if tier == "quick" else 1600
    per = 300 if tier == "quick" else 1200
    return [{"seed": common.subseed(seed, "c17", i), "n": per} for i in range(n)]


class Timeout(Exception):
    pass


def _alarm(sig, frm):
    raise Timeout()


class Tool:
    def __init__(self, env):
        self.environment = env


def make_env(sandbox):
    from bob.stringparser import Env, DEFAULT_STRING_FUNS, EXTRA_STRING_FUNS
    funs = dict(DEFAULT_STRING_FUNS); funs.update(EXTRA_STRING_FUNS)
    env = Env(ref.VARS)
    env.setFuns(funs)
    env.setFunArgs({"recipe": None, "sandbox": sandbox, "__tools": {k: Tool(v) for k, v in ref.TOOLS.items()}})
    return env


def classify_internal(e):
    return "internal-exception:" + type(e).__name__


def run_case(case):
    common.repo_path_setup()
    from bob.stringparser import IfExpression
    from bob.errors import ParseError
    rnd = random.Random(case["seed"])
    signal.signal(signal.SIGALRM, _alarm)
    counters = dict.fromkeys(REQUIRED_COUNTERS, 0)
    counters["timeouts"] = 0
    viol = []
    sigs = set()
    samples = []

    def guarded(fn):
        signal.alarm(10)
        try:
            return ("ok", fn())
        except ParseError as e:
            return ("parse-error", e.slogan)
        except Timeout:
            counters["timeouts"] += 1
            return ("timeout", None)
        except RecursionError as e:
            return ("internal", e)
        except Exception as e:
            return ("internal", e)
        finally:
            signal.alarm(0)

    def report(mech, detail):
        if len([v for v in viol if v["mechanism"] == mech]) < 3:
            viol.append(violation(mech, detail))

    n = case["n"]
    for i in range(n):
        sandbox = rnd.random() < 0.5
        env = make_env(sandbox)
        # ---- (a) value
        g = ref.Gen(rnd, sandbox)
        text, val = g.string(3, "", allow_error=rnd.random() < 0.25)
        kind, got = guarded(lambda: env.substitute(text, "t"))
        if len(samples) < 2:
            samples.append({"text": text, "expected": val, "got": [kind, got if isinstance(got, (str, type(None))) else repr(got)]})
        if kind == "timeout":
            continue
        if kind == "internal":
            report(classify_internal(got), {"text": text, "exception": repr(got)})
        elif val is None:
            counters["error_expected_checked"] += 1
            if kind != "parse-error":
                report("error-expected-but-value", {"text": text, "got": got, "features": sorted(g.features)})
            sigs.update("a:err:" + f for f in g.features)
        else:
            counters["value_checked"] += 1
            if kind == "parse-error":
                report("unexpected-parse-error", {"text": text, "expected": val, "error": got, "features": sorted(g.features)})
            elif got != val:
                report("wrong-value", {"text": text, "expected": val, "got": got, "features": sorted(g.features)})
            sigs.update("a:val:" + f for f in g.features)

        # ---- (b) round trip of protected text
        if i % 2 == 0:
            g = ref.Gen(rnd, sandbox)
            raw = "".join(rnd.choice(ref.ALPH) if rnd.random() < 0.8 else chr(rnd.choice([rnd.randrange(1, 0x7f), rnd.randrange(0x80, 0x2fff), rnd.randrange(0x10000, 0x10ffff)]))
                          for _ in range(rnd.randrange(0, 12)))
            mode = rnd.choice(["bs-all", "single", "double", "mixed"])
            if mode == "bs-all":
                prot = "".join("\\" + c for c in raw)
            elif mode == "single":
                prot = "\\'".join("'" + seg + "'" for seg in raw.split("'"))
            elif mode == "double":
                prot = '"' + "".join(("\\" + c) if c in ref.SPECIAL else c for c in raw) + '"'
            else:
                prot = g.render_value(raw, "")
            kind, got = guarded(lambda: env.substitute(prot, "t"))
            counters["roundtrip_checked"] += 1
            sigs.add("b:" + mode)
            if kind == "internal":
                report(classify_internal(got), {"text": prot, "exception": repr(got)})
            elif kind != "timeout" and (kind != "ok" or got != raw):
                report("quoting-roundtrip-" + mode, {"raw": raw, "protected": prot, "got": [kind, got]})

        # ---- (c) boolean trees
        if i % 2 == 1:
            g = ref.Gen(rnd, sandbox, escape_plain=rnd.random() < 0.5)
            it, ft, v, top = g.boolean(rnd.randrange(0, 4))
            def ev_infix():
                return IfExpression(it).evalExpression(env)
            kind, got = guarded(ev_infix)
            counters["bool_infix_checked"] += 1
            sigs.update("c:" + f for f in g.features if f.startswith(("bool:", "expr:", "paren:")))
            if kind == "internal":
                report(classify_internal(got), {"expr": it, "exception": repr(got)})
            elif kind == "parse-error":
                report("infix-unexpected-parse-error", {"expr": it, "expected": v, "error": got})
            elif kind == "ok" and bool(got) != v:
                report("infix-wrong-truth-value", {"expr": it, "expected": v, "got": got, "callform": ft})
            if ft is not None:
                k2, got2 = guarded(lambda: env.evaluate(ft, "cond"))
                counters["bool_callform_checked"] += 1
                if k2 == "internal":
                    report(classify_internal(got2), {"text": ft, "exception": repr(got2)})
                elif k2 == "parse-error":
                    report("callform-unexpected-parse-error", {"text": ft, "expected": v, "error": got2})
                elif k2 == "ok" and (bool(got2) != v or (kind == "ok" and bool(got) != bool(got2))):
                    report("infix-callform-disagree", {"expr": it, "callform": ft, "expected": v, "infix": got if kind == "ok" else kind, "call": got2})

        # ---- (d) robustness
        g = ref.Gen(rnd, sandbox)
        base, _ = g.string(3, "", True) if rnd.random() < 0.7 else ("".join(rnd.choice(ref.ALPH) for _ in range(rnd.randrange(0, 20))), None)
        s = list(base)
        for _ in range(rnd.randrange(1, 4)):
            op = rnd.random()
            pos = rnd.randrange(0, len(s) + 1)
            if op < 0.4 and s:
                del s[min(pos, len(s) - 1)]
            elif op < 0.8:
                s.insert(pos, rnd.choice('${}(),\\"\':-+' + "a0_ "))
            elif s:
                a, b = sorted((pos, rnd.randrange(0, len(s) + 1)))
                s[a:b] = s[a:b] * 2
        fz = "".join(s)
        if rnd.random() < 0.03:
            fz = rnd.choice(["$(match,a,a{%d})" % 10 ** rnd.randrange(3, 25), "$(resubst,(a{%d}),b,c)" % 10 ** rnd.randrange(3, 25),
                             "${" * rnd.randrange(1, 400) + "A" + "}" * rnd.randrange(1, 400), '"' * rnd.randrange(1, 300),
                             "$(" * rnd.randrange(1, 300) + ")" * rnd.randrange(0, 300)])
        counters["fuzz_inputs"] += 1
        for nounset in (True, False):
            kind, got = guarded(lambda: env.substitute(fz, "t", nounset))
            if kind == "internal":
                report(classify_internal(got), {"text": fz[:300], "len": len(fz), "exception": repr(got)[:300], "api": "substitute"})
        sigs.add("d:subst:" + kind)
        # expression fuzz (pyparsing is slow: every third iteration)
        if i % 3:
            continue
        g = ref.Gen(rnd, sandbox, escape_plain=False)
        it = g.boolean(rnd.randrange(0, 3))[0]
        s = list(it)
        for _ in range(rnd.randrange(1, 3)):
            pos = rnd.randrange(0, len(s) + 1)
            if rnd.random() < 0.5 and s:
                del s[min(pos, len(s) - 1)]
            else:
                s.insert(pos, rnd.choice('()!&|<>="\'\\$, ') )
        fe = "".join(s)
        if rnd.random() < 0.02:
            d = rnd.randrange(5, 60)
            fe = "(" * d + '"a"' + ")" * d
        if rnd.random() < 0.03:
            fe = rnd.choice(['"a" < "b" < "c"', '!"a" == "b"', '"a" == "b" == "c"', '("a" && "b") < "c"', '"a" < ! "b"', 'strip("a" == "b")', '"a" <= ("b" || "c")'])
        def ev_fuzz():
            return IfExpression(fe).evalExpression(env)
        kind, got = guarded(ev_fuzz)
        sigs.add("d:expr:" + kind)
        if kind == "internal":
            report(classify_internal(got), {"expr": fe[:300], "exception": repr(got)[:300], "api": "IfExpression"})

    return result("held", sigs=sorted(sigs), counters=counters, violations=viol, sample=samples)


LEVEL_TEXT = ("Exploration: tens of thousands of generated expressions per run are evaluated by the real Env.substitute/evaluate and "
              "IfExpression and compared with a value constructed from the documentation while the text was generated; any exception "
              "other than ParseError on raw/mutated input is a violation. Held = no deviation on what was generated.")
LEVEL_NOTE = "Trusts the generator's reading of the documentation (lib/refmodels/subst.py); Python re is the regex semantics; hangs are cut at 10 s and counted, never judged."
TECHNIQUE = "reference-model runtime monitor: generated expression trees with expected values, infix-vs-call-form differential, exception-class monitor under fuzzing"
