"""C10 Workspace state commits atomically and is single-writer  (fault enumeration).

A child process drives the real bob.state._BobState through seeded mutator sequences split into
several invocations.  An audit hook takes an image of the state files *before every file-system
operation* on them (= every crash point of the trace) and tracks which inodes carry data that was
written but not fsynced.  Every image (kill model) and every torn variant of its unsynced files
(power-loss model) is then loaded by a separate loader process through the public API and must yield exactly
one of the saved snapshots, not older than the end of the last completed invocation.
"""
import json, os, random, shutil, subprocess, sys

if __name__ == "__main__":
    sys.path.insert(0, os.path.dirname(os.path.dirname(os.path.abspath(__file__))))
from lib import common
from lib.common import result, violation

ID = "C10"
LEVEL = "fault_enumeration"
BATCH = 1
CASE_TIMEOUT = 600
MIN_NONTRIVIAL = 100
REQUIRED_COUNTERS = ["images_kill", "images_torn", "loads", "lock_probes_locked", "lock_probes_free", "saved_snapshots"]
RULE = ("per case one seeded sequence of public _BobState mutators over 3-4 invocations; EVERY file-system operation on the state "
        "files is a crash point (image taken before the operation, plus one after each finalize); for every image every file with "
        "written-but-unsynced data is additionally truncated at several lengths, zero-filled, bit-flipped and emptied. "
        "distinct_nontrivial = number of distinct (image, tear variant) pairs loaded; exhaustive per executed trace, traces are sampled.")
ASSUMPTIONS = ["crash model: directory operations (rename/unlink) are atomic and ordered; file data written since the last fsync of that inode may be lost or garbled in any way; fsynced data is durable",
               "the user deletes the stale lock file before restarting (as the error message instructs)",
               "state equality is judged through the public getters only"]

STATE_FILES = (".bob-state.pickle", ".bob-state.pickle.new", ".bob-state.pickle.new.dirty", ".bob-state.lock")
KEYS = ["w%d" % i for i in range(4)]
DIGESTS = [bytes([i]) * 4 for i in range(4)]
JENKINS = ["j1", "j2"]


def plan(tier, seed):
    n = 32 if tier == "quick" else 600
    return [{"seed": common.subseed(seed, "c10", i), "mutators": 14 if tier == "quick" else 24, "invocations": 3 if tier == "quick" else 4} for i in range(n)]


# ----------------------------------------------------------------------------- child side

def snap(S):
    from bob.state import JenkinsConfig
    jen = []
    for j in sorted(S.getAllJenkins()):
        jobs = sorted((k, repr(S.getJenkinsJobConfig(j, k))) for k in S.getJenkinsAllJobs(j))
        jen.append((j, sorted(S.getJenkinsConfig(j).dump().items(), key=repr), jobs))
    return repr((
        sorted((k, S.getResultHash(k)) for k in KEYS),
        sorted((k, S.getInputHashes(k)) for k in KEYS),
        sorted((k, S.getVariantId(k)) for k in KEYS),
        sorted((k, S.getDirectoryState(k, False)) for k in S.getDirectories()),
        sorted((k, S.getAtticDirectoryState(k)) for k in S.getAtticDirectories()),
        sorted((k, S.getLayerState(k)) for k in S.getLayers()),
        sorted((k, S.getStoragePath(k)) for k in KEYS),
        S.getBuildState(),
        sorted(map(repr, S.getAllNameDirectores())),
        sorted((d.hex(), S.getExistingByNameDirectory(d)) for d in DIGESTS),
        jen,
    ))


def mutate(S, rnd):
    from bob.state import JenkinsConfig
    k = rnd.choice(KEYS)
    b = lambda n=3: bytes(rnd.randrange(256) for _ in range(n))
    op = rnd.randrange(22)
    if op == 0: S.setResultHash(k, b()); return "setResultHash"
    if op == 1: S.setInputHashes(k, [b(2) for _ in range(rnd.randrange(3))]); return "setInputHashes"
    if op == 2: S.delInputHashes(k); return "delInputHashes"
    if op == 3: S.setVariantId(k, b()); return "setVariantId"
    if op == 4: S.setDirectoryState(k, rnd.choice([b(), [b(), b()], {None: (b(), {"scm": "git"}), "sub": (b(), None)}])); return "setDirectoryState"
    if op == 5: S.resetWorkspaceState(k, rnd.choice([None, b(2)])) if S.hasDirectoryState(k) or rnd.random() < 0.5 else S.setDirectoryState(k, b()); return "resetWorkspaceState"
    if op == 6: S.getByNameDirectory("work/" + k, rnd.choice(DIGESTS), rnd.random() < 0.5); return "getByNameDirectory"
    if op == 7: S.setBuildState({"wasRun": {k: (b(2), rnd.random() < 0.5)}, "predictedBuidId": {k: b(2)}}); return "setBuildState"
    if op == 8: S.setAtticDirectoryState("attic/" + k, {"scm": b(2).hex()}); return "setAtticDirectoryState"
    if op == 9: S.delAtticDirectoryState("attic/" + k); return "delAtticDirectoryState"
    if op == 10: S.setLayerState("layers/" + k, {"digest": b(2).hex()}); return "setLayerState"
    if op == 11: S.delLayerState("layers/" + k); return "delLayerState"
    if op == 12: S.setStoragePath(k, rnd.choice([k, "/store/" + k + b(1).hex()])); return "setStoragePath"
    if op == 13:
        if S.hasDirectoryState(k): S.delDirectoryState(k)
        return "delDirectoryState"
    j = rnd.choice(JENKINS)
    have = j in S.getAllJenkins()
    if op == 14 or not have:
        S.addJenkins(j, JenkinsConfig("http://h/%s/" % b(1).hex())); return "addJenkins"
    if op == 15: S.delJenkins(j); return "delJenkins"
    if op == 16:
        c = S.getJenkinsConfig(j); c.prefix = b(2).hex(); S.setJenkinsConfig(j, c); return "setJenkinsConfig"
    if op == 17: S.addJenkinsJob(j, "job" + str(rnd.randrange(3)), {"hash": b(2).hex()}); return "addJenkinsJob"
    if op == 18:
        jobs = sorted(S.getJenkinsAllJobs(j))
        if jobs: S.delJenkinsJob(j, rnd.choice(jobs))
        return "delJenkinsJob"
    if op == 19:
        jobs = sorted(S.getJenkinsAllJobs(j))
        if jobs: S.setJenkinsJobConfig(j, rnd.choice(jobs), {"hash": b(2).hex(), "x": [1, 2]})
        return "setJenkinsJobConfig"
    if op == 20: S.getJenkinsByNameDirectory(j, "jw/" + k, rnd.choice(DIGESTS)); return "getJenkinsByNameDirectory"
    # asynchronous section: several mutations, one save
    S.setAsynchronous()
    S.setResultHash(k, b()); S.setVariantId(k, b())
    S.setSynchronous()
    return "asynchronous-section"


def drive(work, seed, nmut, ninv):
    sys.path.insert(0, os.path.join(common.REPO, "pym"))
    os.chdir(work)
    import bob.state as bs
    rnd = random.Random(seed)
    base = os.path.dirname(work)
    imgdir = os.path.join(base, "images"); os.makedirs(imgdir)
    images, snaps, finalized, ops, lockres = [], [], {}, [], []
    active = [True]
    inv = [0]
    dirty = set()           # inodes with written-but-unsynced data
    saves = [0]
    mypid = os.getpid()

    def take(event):
        active[0] = False
        d = os.path.join(imgdir, "%05d" % len(images)); os.mkdir(d)
        dirty_names = []
        for f in STATE_FILES:
            if os.path.exists(f):
                shutil.copy2(f, os.path.join(d, f))
                if os.stat(f).st_ino in dirty and f != ".bob-state.lock":
                    dirty_names.append(f)
        images.append({"dir": d, "nsnaps": len(snaps), "inv": inv[0], "event": event, "dirty": dirty_names})
        active[0] = True

    def hook(ev, args):
        if not active[0] or os.getpid() != mypid:
            return
        if ev not in ("open", "os.rename", "os.remove"):
            return
        a = args[0] if isinstance(args[0], str) else ""
        b = args[1] if ev == "os.rename" and isinstance(args[1], str) else ""
        if ".bob-state" not in a and ".bob-state" not in b:
            return
        if ev == "open":
            mode = args[1]
            if not isinstance(mode, str) or not any(c in mode for c in "wxa+"):
                return
        take("%s %s %s" % (ev, os.path.basename(a), os.path.basename(b)))
        if ev == "os.rename" and b.endswith(".bob-state.pickle.new"):
            saves[0] += 1
    sys.addaudithook(hook)

    # track unsynced data: any write-mode open dirties the inode (observed after the open), fsync cleans it
    import builtins
    real_open, real_fsync = builtins.open, os.fsync
    def my_open(file, mode="r", *a, **k):
        f = real_open(file, mode, *a, **k)
        if isinstance(file, str) and ".bob-state" in file and any(c in mode for c in "wxa+"):
            dirty.add(os.fstat(f.fileno()).st_ino)
        return f
    def my_fsync(fd):
        r = real_fsync(fd)
        dirty.discard(os.fstat(fd).st_ino)
        return r
    builtins.open = my_open
    os.fsync = my_fsync

    def probe():
        active[0] = False
        r = subprocess.run([sys.executable, os.path.abspath(__file__), "probe", work], capture_output=True, text=True, timeout=60,
                           env=dict(os.environ, VERIF_REPO=common.REPO))
        active[0] = True
        return r.stdout.strip().splitlines()[-1] if r.stdout.strip() else "ERR " + r.stderr[-200:]

    for invocation in range(ninv):
        inv[0] = invocation
        S = bs.BobState()
        s0 = snap(S)
        if not snaps:
            snaps.append({"s": s0, "saved": True, "inv": 0})
        elif s0 != snaps[-1]["s"]:
            snaps.append({"s": s0, "saved": False, "inv": invocation, "note": "state at start differs from state at end of previous invocation"})
        probe_at = rnd.randrange(nmut)
        for i in range(nmut):
            before = saves[0]
            ops.append(mutate(S, rnd))
            snaps.append({"s": snap(S), "saved": saves[0] > before, "inv": invocation})
            if i == probe_at:
                # several other instances knock one after the other while this one holds the workspace: every one is refused
                # and none of them may take the holder's lock file away
                for _k in range(rnd.choice([1, 2, 3])):
                    lockres.append(("held", probe()))
                    if not os.path.exists(os.path.join(work, ".bob-state.lock")):
                        lockres.append(("held", "LOCK FILE REMOVED BY A REFUSED INSTANCE"))
        bs.finalize()
        finalized[invocation] = len(snaps) - 1
        take("after-finalize")
        if invocation == ninv - 1 or rnd.random() < 0.5:
            lockres.append(("free", probe()))
    active[0] = False
    builtins.open = real_open
    json.dump({"images": images, "snaps": snaps, "finalized": finalized, "ops": ops, "lock": lockres},
              real_open(os.path.join(base, "trace.json"), "w"))


def probe(work):
    sys.path.insert(0, os.path.join(common.REPO, "pym"))
    os.chdir(work)
    import bob.state as bs
    from bob.errors import ParseError
    try:
        bs.BobState()
    except ParseError as e:
        print("LOCKED" if "locked" in str(e).lower() else "ERR " + str(e)[:200])
        return
    bs.finalize()
    print("FREE")


def loader():
    """Reads image directories from stdin, loads each through the real API, prints one JSON line per image.

    No fork per image: on a loaded machine fork+wait costs far more than the load itself.  bob.state keeps no
    global state besides the instance singleton, which finalize() (also called by a failing constructor) resets.
    """
    sys.path.insert(0, os.path.join(common.REPO, "pym"))
    import bob.state as bs
    import resource, signal
    # unpickling a torn file may ask for absurd amounts of memory or spin: bound both (MemoryError = failed load)
    resource.setrlimit(resource.RLIMIT_AS, (2 << 30, 2 << 30))
    def on_alarm(sig, frm):
        raise TimeoutError("load did not finish within 20 s")
    signal.signal(signal.SIGALRM, on_alarm)
    out = os.fdopen(os.dup(1), "w")
    devnull = os.open(os.devnull, os.O_WRONLY); os.dup2(devnull, 2); os.dup2(devnull, 1)
    for line in sys.stdin:
        d = line.strip()
        if not d:
            continue
        try:
            signal.alarm(20)
            os.chdir(d)
            if os.path.exists(".bob-state.lock"):
                os.unlink(".bob-state.lock")
            bs._BobState.instance = None
            S = bs.BobState()
            s = snap(S)
            bs.finalize()
            # a second start must see the same state (the recovery itself must be stable)
            S2 = bs.BobState(); s2 = snap(S2); bs.finalize()
            res = {"ok": True, "snap": s, "snap2": s2}
        except BaseException as e:
            res = {"ok": False, "error": "%s: %s" % (type(e).__name__, str(e)[:300])}
            try:
                if bs._BobState.instance is not None:
                    bs._BobState.instance = None
            except Exception:
                pass
        finally:
            signal.alarm(0)
        out.write(json.dumps(res) + "\n"); out.flush()


# ----------------------------------------------------------------------------- harness side

def tear_variants(path, rnd):
    data = open(path, "rb").read()
    n = len(data)
    out = []
    for cut in sorted(set([0, 1, 3, 4, 5, n // 3, n // 2, max(n - 5, 0), max(n - 4, 0), max(n - 1, 0)])):
        if cut < n:
            out.append(("trunc%d" % cut, data[:cut]))
    if n:
        out.append(("zero", b"\0" * n))
        for _ in range(3):
            i = rnd.randrange(n)
            out.append(("flip%d" % i, data[:i] + bytes([data[i] ^ (1 << rnd.randrange(8))]) + data[i + 1:]))
        out.append(("tailzero", data[:n // 2] + b"\0" * (n - n // 2)))
    out.append(("missing", None))
    return out


def run_case(case):
    rnd = random.Random(case["seed"])
    counters = dict.fromkeys(REQUIRED_COUNTERS, 0)
    viol = []
    sigs = set()
    me = os.path.abspath(__file__)
    with common.scratch("c10", root="/dev/shm/bobverif" if os.path.isdir("/dev/shm") else None) as base:
        work = os.path.join(base, "work"); os.mkdir(work)
        env = common.clean_env()
        r = common.run_proc([common.PY, me, "drive", work, str(case["seed"]), str(case["mutators"]), str(case["invocations"])],
                            env=env, timeout=300)
        if r.returncode != 0 or not os.path.exists(os.path.join(base, "trace.json")):
            return result("inconclusive", note="driver failed: " + r.tail())
        tr = json.load(open(os.path.join(base, "trace.json")))
        snaps = tr["snaps"]
        finalized = {int(k): v for k, v in tr["finalized"].items()}
        counters["saved_snapshots"] = sum(1 for s in snaps if s["saved"])
        for s in snaps:
            if s.get("note"):
                viol.append(violation("state-changed-across-restart", {"note": s["note"]}))
        for kind, res in tr["lock"]:
            if kind == "held":
                counters["lock_probes_locked"] += 1
                if res != "LOCKED":
                    viol.append(violation("second-instance-not-refused", {"probe": res}))
            else:
                counters["lock_probes_free"] += 1
                if res != "FREE":
                    viol.append(violation("workspace-still-locked-after-finalize", {"probe": res}))
        # materialise variants
        jobs = []
        for img in tr["images"]:
            jobs.append((img, "kill", img["dir"]))
            counters["images_kill"] += 1
            for fname in img["dirty"]:
                if fname.endswith(".dirty"):
                    continue            # never read by anyone; tearing it is pointless
                seen = set()
                for vname, data in tear_variants(os.path.join(img["dir"], fname), rnd):
                    if vname in seen:
                        continue
                    seen.add(vname)
                    d = img["dir"] + "_" + fname.replace(".bob-state.", "") + "_" + vname
                    shutil.copytree(img["dir"], d)
                    p = os.path.join(d, fname)
                    if data is None:
                        os.unlink(p)
                    else:
                        with open(p, "wb") as f:
                            f.write(data)
                    jobs.append((img, fname + ":" + vname, d))
                    counters["images_torn"] += 1
        r = common.run_proc([common.PY, me, "loader"], env=env, timeout=500, input="\n".join(j[2] for j in jobs) + "\n")
        lines = [l for l in (r.stdout or "").splitlines() if l.startswith("{")]
        if len(lines) != len(jobs):
            return result("inconclusive", counters=counters, note="loader produced %d of %d results: %s" % (len(lines), len(jobs), r.tail()))
        for (img, vname, d), line in zip(jobs, lines):
            res = json.loads(line)
            counters["loads"] += 1
            sigs.add("%d|%s|%s|%s" % (case["seed"] % 100000, os.path.basename(img["dir"]), img["event"], vname))
            min_idx = finalized.get(img["inv"] - 1, 0) if img["inv"] > 0 else 0
            if img["event"] == "after-finalize":
                min_idx = finalized[img["inv"]]
            ctx = {"event": img["event"], "variant": vname, "invocation": img["inv"], "ops_tail": tr["ops"][max(0, img["nsnaps"] - 4):img["nsnaps"]]}
            if not res["ok"] and res["error"].startswith("TimeoutError"):
                counters["load_timeouts"] = counters.get("load_timeouts", 0) + 1      # wall clock never decides
                continue
            if not res["ok"]:
                viol.append(violation("load-failed-after-crash", dict(ctx, error=res["error"])))
                continue
            idxs = [i for i, s in enumerate(snaps[:img["nsnaps"] + 1]) if s["s"] == res["snap"] and s["saved"]]
            if not idxs:
                anyidx = [i for i, s in enumerate(snaps) if s["s"] == res["snap"]]
                viol.append(violation("loaded-state-is-not-a-saved-snapshot", dict(ctx, matches_unsaved_or_future=anyidx[:3])))
            elif max(idxs) < min_idx and snaps[min_idx]["s"] != res["snap"]:
                viol.append(violation("loaded-state-older-than-last-completed-invocation", dict(ctx, loaded_index=max(idxs), required=min_idx)))
            if res.get("snap2") != res["snap"]:
                viol.append(violation("recovered-state-not-stable-on-second-start", ctx))
    viol = viol[:6]
    return result("held", sigs=sorted(sigs), counters=counters, violations=viol,
                  sample={"seed": case["seed"], "ops": tr["ops"][:12], "events": [i["event"] for i in tr["images"][:14]],
                          "images": len(tr["images"]), "snapshots": len(snaps)})


LEVEL_TEXT = ("Fault enumeration: for each executed mutator trace every file-system operation on the state files is a crash point "
              "(kill model), and every unsynced file of every crash image is torn in ~15 ways (power-loss model); each image is loaded "
              "by a fresh process of the real code. Complete per trace; traces (mutator sequences) are sampled by seed.")
LEVEL_NOTE = "Power loss is emulated from the operation trace (atomic ordered renames, arbitrary loss of unsynced file data); no real block device. Lock test uses real concurrent processes."
TECHNIQUE = "crash-image enumeration from an audit-hook fs-operation trace (kill and torn-write models) + snapshot-membership oracle via public getters"


if __name__ == "__main__":
    if sys.argv[1] == "drive":
        drive(sys.argv[2], int(sys.argv[3]), int(sys.argv[4]), int(sys.argv[5]))
    elif sys.argv[1] == "probe":
        probe(sys.argv[2])
    elif sys.argv[1] == "loader":
        loader()
